"""Drive the verification of one function against its sidecar contract and collect a report."""
import time, copy
from .symexec import Engine, Obligation
from .sym import Unsupported, EngineError
from . import discharge
import z3


class FuncReport:
    def __init__(self, con, config=""):
        self.con, self.config = con, config
        self.results = []        # discharge.Result
        self.covers = []         # (name, sat|unsat|unknown)
        self.symexec_s = 0.0
        self.error = None
        self.surface = set()
        self.engine = None

    @property
    def ok(self):
        return self.error is None and all(r.status == "proved" for r in self.results) and \
            all(c[1] == "sat" for c in self.covers) and len(self.results) > 0


def make_engine(repo, schema, contracts, loop_specs, spec_funcs, inline=None, safety=False, prefix="", overrides=None,
                prune=False):
    cmap = {}
    for c in contracts:
        cmap[(c.cls, c.name)] = c
    eng = Engine(repo, schema=dict(schema), contracts=cmap, loop_specs=dict(loop_specs), inline=inline,
                 spec_funcs=spec_funcs, safety=safety, prefix=prefix, builtin_overrides=overrides)
    eng.prune = prune
    return eng


def verify(repo, con, schema, callee_contracts=(), loop_specs=None, spec_funcs=None, inline=None, safety=False,
           timeout_ms=30000, config="", overrides=None, tactic=None, canary=True, defer=False, prune=False):
    rep = FuncReport(con, config)
    t0 = time.time()
    obligations, covers = [], []
    try:
        cases = con.cases or [None]
        for ci, case in enumerate(cases):
            eng = make_engine(repo, schema, callee_contracts, loop_specs or {}, spec_funcs or {}, inline, safety,
                              overrides=overrides, prune=prune)
            c2 = con
            if case is not None:
                c2 = copy.copy(con)
                c2.requires = list(con.requires) + [case]
            try:
                eng.verify_function(c2)
            except Unsupported as e:
                # the obligations generated before the unsupported construct was met are still obligations
                rep.error = str(e)
            for ob in eng.obligations:
                ob.name = ("%s[%s]" % (ob.name, config) if config else ob.name) + ("{case%d}" % ci if case is not None else "")
            obligations.extend(eng.obligations)
            covers.extend([("%s{case%d}" % (n, ci) if case is not None else n, f) for n, f in eng.covers])
            rep.surface |= eng.surface
            rep.engine = eng
        if con.cases:
            # the case split must be exhaustive under the pre-condition
            eng = make_engine(repo, schema, callee_contracts, loop_specs or {}, spec_funcs or {}, inline, False)
            c3 = copy.copy(con)
            c3.ensures, c3.raises = [], {}
            st = eng.new_state()
            fn = repo.func(con.file, con.qual)
            eng.cur_file, eng.cur_class, eng.cur_func, eng.cur_func_qual = con.file, con.cls, con.qual, con.qual
            env = {}
            for a in fn.args.args:
                if a.arg == "self":
                    env["self"] = eng.typed_param("self", "ref:" + con.cls)
                else:
                    env[a.arg] = eng.typed_param(a.arg, con.params[a.arg])
            st.env = env
            eng.run_ghost(st, con.setup)
            for rq in con.requires:
                st.assume(eng.eval_spec(st, rq, dict(st.env)))
            goal = z3.Or(*[eng.eval_spec(st, c, dict(st.env)) for c in con.cases])
            eng.oblige(st, goal, "cases-exhaustive", fn, " or ".join(con.cases)[:200])
            obligations.extend(eng.obligations)
        if canary and obligations:
            # vacuity canary: `False` under the hypotheses of the first ensures-obligation must NOT be provable
            ens = [o for o in obligations if o.kind.startswith("ensures")]
            if ens:
                # hypotheses at the first and at the last post-condition obligation (i.e. after every callee contract
                # has been assumed): an inconsistent callee contract / frame would make everything after it vacuous
                for tag, o in (("first", ens[0]), ("last", ens[-1])):
                    covers.append(("canary-false-not-provable[%s,%s]" % (con.qual, tag), list(o.hyps)))
    except Unsupported as e:
        rep.error = str(e)
    rep.symexec_s = time.time() - t0
    # serialise (SMT-LIB2 text) so that reports can cross process boundaries; z3 objects are dropped
    rep.pending = ([discharge.serialize(o) for o in obligations], [discharge.serialize_cover(c) for c in covers],
                   timeout_ms, tactic)
    rep.engine = None
    if not defer:
        finish_reports([rep])
    return rep


def finish_reports(reps):
    """discharge the obligations of many reports in one batch (keeps all cores busy)"""
    todo = [r for r in reps if getattr(r, "pending", None) is not None]
    if not todo:
        return
    allobs, owners = [], []
    for r in todo:
        for ob in r.pending[0]:
            allobs.append(ob)
            owners.append(r)
    tmo = max(r.pending[2] for r in todo)
    results = discharge.discharge(allobs, timeout_ms=tmo, tactic=todo[0].pending[3], use_cvc5=False)
    for r in todo:
        r.results = []
    for res, owner in zip(results, owners):
        owner.results.append(res)
    allcov, cown = [], []
    for r in todo:
        for c in r.pending[1]:
            allcov.append(c)
            cown.append(r)
    cres = discharge.check_sat(allcov)
    for r in todo:
        r.covers = []
    for c, owner in zip(cres, cown):
        owner.covers.append(c)
    for r in todo:
        r.pending = None
