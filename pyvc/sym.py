"""Symbolic values and helpers shared by the executor and the contract layer."""
import z3
from fractions import Fraction

IntS, RealS, BoolS = z3.IntSort(), z3.RealSort(), z3.BoolSort()

# extended reals: +inf / -inf are two distinguished real constants; every value that the code can compute
# by finite arithmetic is assumed to lie strictly between them where a contract says `finite(x)`.
PINF = z3.Real("PINF")
NINF = z3.Real("NINF")
FMAX = z3.RealVal(str(Fraction(1.7976931348623157e308)))   # sys.float_info.max
INF_AXIOMS = [NINF < -FMAX, PINF > FMAX, NINF == -PINF]


class Unsupported(Exception):
    """Construct outside the executed Python subset -> exit 2 (undecided), never a verdict."""

    def __init__(self, msg, node=None, file=None):
        self.node = node
        line = getattr(node, "lineno", "?")
        super().__init__("UNSUPPORTED %s:%s %s" % (file or "?", line, msg))


class EngineError(Exception):
    pass


class Ref:
    """Reference into the symbolic heap.  e: z3 Int expression (0 = None).  cls: static class name, or
    'vec:real' | 'vec:int' | 'list:<Class>' | 'tuple' for sequence objects."""
    __slots__ = ("e", "cls")

    def __init__(self, e, cls=None):
        if isinstance(e, int):
            e = z3.IntVal(e)
        self.e = e
        self.cls = cls

    def __repr__(self):
        return "Ref(%s:%s)" % (self.e, self.cls)


class ArrVal:
    """Ghost mathematical sequence / map (a z3 array Int -> T) held in a ghost field or ghost local.
    elem: element type string ('ref:<Class>' | 'real' | 'int' | 'bool')."""
    __slots__ = ("arr", "elem")

    def __init__(self, arr, elem):
        self.arr, self.elem = arr, elem

    def __repr__(self):
        return "ArrVal(%s:%s)" % (self.arr, self.elem)


class Tuple_:
    """Immutable python tuple of values (returned by functions)."""
    __slots__ = ("items",)

    def __init__(self, items):
        self.items = list(items)


class ModuleVal:
    def __init__(self, name):
        self.name = name

    def __repr__(self):
        return "Module(%s)" % self.name


class ClassVal:
    def __init__(self, name, info=None):
        self.name = name
        self.info = info


class FuncVal:
    def __init__(self, fn, module=None, cls=None):
        self.fn, self.module, self.cls = fn, module, cls


class BoundMethod:
    def __init__(self, recv, cls, name, fn, info):
        self.recv, self.cls, self.name, self.fn, self.info = recv, cls, name, fn, info


class Builtin:
    def __init__(self, name):
        self.name = name

    def __repr__(self):
        return "Builtin(%s)" % self.name


class ExcVal:
    """An exception instance: only its class matters."""

    def __init__(self, cls, msg=None):
        self.cls, self.msg = cls, msg


class Opaque:
    """a value the verified code never inspects (wall-clock time stamps): arithmetic on it stays opaque, a method call on
    it yields an unconstrained real"""

    def __init__(self, what):
        self.what = what


class Poison:
    def __init__(self, why):
        self.why = why


_STR_IDS = {}


def str_id(s):
    """Strings stored in the heap are interned to integers >= 10**6."""
    if s not in _STR_IDS:
        _STR_IDS[s] = 10 ** 6 + len(_STR_IDS)
    return _STR_IDS[s]


def is_z3(v):
    return isinstance(v, z3.ExprRef)


def is_num(v):
    return (isinstance(v, (int, Fraction)) and not isinstance(v, bool)) or (is_z3(v) and (z3.is_int(v) or z3.is_real(v)))


def is_concrete_num(v):
    return isinstance(v, (int, Fraction)) and not isinstance(v, bool)


def to_z3(v, sort=None):
    """Lift a value to a z3 expression of the requested sort (None: natural sort)."""
    if isinstance(v, Ref):
        v = v.e
    if isinstance(v, ArrVal):
        return v.arr
    if isinstance(v, bool):
        if sort is None or sort == BoolS:
            return z3.BoolVal(v)
        v = int(v)
    if isinstance(v, int):
        if sort == RealS:
            return z3.RealVal(v)
        if sort == BoolS:
            return z3.BoolVal(v != 0)
        return z3.IntVal(v)
    if isinstance(v, float):
        v = Fraction(v)
    if isinstance(v, Fraction):
        if sort == IntS:
            if v.denominator != 1:
                raise Unsupported("non-integral constant %s used as int" % v)
            return z3.IntVal(v.numerator)
        return z3.RealVal(str(v))
    if v is None:
        if sort in (None, IntS):
            return z3.IntVal(0)
        raise Unsupported("None used as %s" % sort)
    if isinstance(v, str):
        return z3.IntVal(str_id(v))
    if is_z3(v):
        if sort is None or v.sort() == sort:
            return v
        if sort == RealS and z3.is_int(v):
            return z3.ToReal(v)
        if sort == IntS and z3.is_real(v):
            raise Unsupported("real used where int expected: %s" % v)
        if sort == BoolS and z3.is_int(v):
            return v != 0
        if sort == IntS and z3.is_bool(v):
            return z3.If(v, 1, 0)
        if sort == RealS and z3.is_bool(v):
            return z3.If(v, z3.RealVal(1), z3.RealVal(0))
        raise Unsupported("sort mismatch %s vs %s" % (v.sort(), sort))
    raise Unsupported("cannot lift %r to z3" % (v,))


def simp(e):
    return z3.simplify(e) if is_z3(e) else e


def concrete(v):
    """Return python int / Fraction / bool if v is a concrete value (possibly a z3 numeral), else None."""
    if isinstance(v, (bool, int, Fraction)):
        return v
    if isinstance(v, float):
        return Fraction(v)
    if is_z3(v):
        s = z3.simplify(v)
        if z3.is_int_value(s):
            return s.as_long()
        if z3.is_rational_value(s):
            return Fraction(s.numerator_as_long(), s.denominator_as_long())
        if z3.is_true(s):
            return True
        if z3.is_false(s):
            return False
    return None


def num_sort(a, b):
    """common numeric sort for a binary operation"""
    def isreal(v):
        return isinstance(v, Fraction) or isinstance(v, float) or (is_z3(v) and z3.is_real(v))
    return RealS if (isreal(a) or isreal(b)) else IntS


def zand(*xs):
    xs = [x for x in xs if not (x is True or (is_z3(x) and z3.is_true(x)))]
    if any(x is False for x in xs):
        return z3.BoolVal(False)
    if not xs:
        return z3.BoolVal(True)
    xs = [to_z3(x, BoolS) for x in xs]
    return xs[0] if len(xs) == 1 else z3.And(*xs)


def zor(*xs):
    xs = [x for x in xs if not (x is False or (is_z3(x) and z3.is_false(x)))]
    if any(x is True for x in xs):
        return z3.BoolVal(True)
    if not xs:
        return z3.BoolVal(False)
    xs = [to_z3(x, BoolS) for x in xs]
    return xs[0] if len(xs) == 1 else z3.Or(*xs)


def znot(x):
    if isinstance(x, bool):
        return not x
    return z3.Not(to_z3(x, BoolS))


def zimplies(a, b):
    return z3.Implies(to_z3(a, BoolS), to_z3(b, BoolS))


def zabs(x):
    c = concrete(x)
    if c is not None:
        return abs(c)
    x = to_z3(x)
    return z3.If(x >= 0, x, -x)


def zmin(a, b):
    ca, cb = concrete(a), concrete(b)
    if ca is not None and cb is not None:
        return min(ca, cb)
    s = num_sort(a, b)
    a, b = to_z3(a, s), to_z3(b, s)
    return z3.If(b < a, b, a)     # python: min(a,b) returns a unless b < a


def zmax(a, b):
    ca, cb = concrete(a), concrete(b)
    if ca is not None and cb is not None:
        return max(ca, cb)
    s = num_sort(a, b)
    a, b = to_z3(a, s), to_z3(b, s)
    return z3.If(b > a, b, a)


def isclose(a, b):
    """math.isclose(a, b) with CPython's default rel_tol=1e-09, abs_tol=0.0 (exact definition, over the reals)."""
    ca, cb = concrete(a), concrete(b)
    tol = Fraction(1e-09)
    if ca is not None and cb is not None:
        ca, cb = Fraction(ca), Fraction(cb)
        return ca == cb or abs(ca - cb) <= tol * max(abs(ca), abs(cb))
    a, b = to_z3(a, RealS), to_z3(b, RealS)
    d = zabs(a - b)
    m = zmax(zabs(a), zabs(b))
    return z3.Or(a == b, d <= z3.RealVal(str(tol)) * m)
