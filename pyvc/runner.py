"""Common machinery of a property check: collect obligation results, decide the verdict, replay counter-models
natively, write evidence/<id>.json and replay files, print VIOLATION / KNOWN-FINDING lines, exit code."""
import json, os, sys, time, hashlib, subprocess, re

HERE = os.path.dirname(os.path.dirname(os.path.abspath(__file__)))
EVID = os.path.join(HERE, "evidence")
REPLAY = os.path.join(HERE, "replay")
BASELINE = os.path.join(HERE, "baseline_obligations.json")
KNOWN = os.path.join(HERE, "known_findings.txt")
VENV_PY = "/venv/bin/python"
REPO = os.environ.get("PYVC_REPO", "/repo")

GLOBAL_TRUSTED = [
    "T1 pyvc itself (symbolic executor, VC generation, interval back end); mitigated by canary obligations, "
    "satisfiability covers and the CPython cross-check",
    "T2 z3 5.1.0 / cvc5 are sound",
    "T3 machine floats are treated as mathematical reals (except where stated); math.isclose is encoded exactly",
    "T4 Python semantics of DESIGN.md 2.3: static MRO dispatch, no monkey-patching, CPython default-argument "
    "semantics, unbounded ints, left-to-right evaluation",
]


def stable_key(ob_name, note):
    """obligation identity that survives line-number changes: function | kind | config | clause text"""
    m = re.match(r"^(.*?):(.*):L\d+#\d+(\[.*?\])?(\{.*\})?$", ob_name)
    if m:
        return "%s|%s|%s%s|%s" % (m.group(1), m.group(2), m.group(3) or "", m.group(4) or "", note)
    return ob_name + "|" + note


def load_known():
    """known_findings.txt -> list of dict(status, property, key, what, commit)"""
    out = []
    if os.path.exists(KNOWN):
        for l in open(KNOWN):
            l = l.strip()
            if not l or l.startswith("#"):
                continue
            m = re.match(r"^known:\s+property=(\S+)\s+key=(\S+)\s+::\s+(.*)$", l)
            if m:
                out.append(dict(status="known", property=m.group(1), key=m.group(2), what=m.group(3)))
                continue
            m = re.match(r"^fixed:\s+property=(\S+)\s+(\S+)\s+(.*)$", l)
            if m:
                out.append(dict(status="fixed", property=m.group(1), commit=m.group(2), what=m.group(3)))
    return out


def load_baseline():
    if os.path.exists(BASELINE):
        return json.load(open(BASELINE))
    return {}


def native(script, payload, timeout=600):
    """Run a native replay/oracle script under /venv/bin/python against REPO's working tree."""
    env = dict(os.environ)
    env["PYTHONPATH"] = REPO + os.pathsep + HERE
    env["PYVC_REPO"] = REPO
    env.pop("PYTHONHOME", None)
    p = subprocess.run([VENV_PY, os.path.join(HERE, script)], input=json.dumps(payload), capture_output=True,
                       text=True, timeout=timeout, env=env, cwd=HERE)
    if p.returncode != 0:
        raise RuntimeError("native script %s failed: %s" % (script, (p.stderr or "")[-2000:]))
    return json.loads(p.stdout.strip().splitlines()[-1])


class Check:
    def __init__(self, pid, tier, seed, level="proof"):
        self.pid, self.tier, self.seed, self.level = pid, tier, seed, level
        self.t0 = time.time()
        self.items = []          # dict(key,name,func,kind,clause,status,backend,time,model,reason,config)
        self.errors = []         # unsupported / engine errors: (where, message)
        self.covers = []
        self.functions = set()
        self.assumptions = []
        self.trusted = list(GLOBAL_TRUSTED)
        self.bounded = []        # bounded stand-ins, never counted as proof
        self.extra = {}
        self.violations = []     # dict(obligation, replay, failing_input or None, what)
        self.known_hits = []
        self.inlined = set()
        self.configs = set()
        self.finite = []         # exhaustive finite-family enumerations: dict(name,count,failed)
        self.native_failures = []   # failing inputs found by native replay: dict(what, input, observed)

    # ---- collecting
    def add_report(self, rep):
        self.functions.add("%s::%s" % (rep.con.file, rep.con.qual))
        if rep.config:
            self.configs.add(rep.config)
        if rep.error:
            self.errors.append(("%s %s" % (rep.con.qual, rep.config), rep.error))
        for r in rep.results:
            self.add_result(r)
        for n, s in rep.covers:
            self.covers.append((n + ("[%s]" % rep.config if rep.config else ""), s))

    def add_result(self, r, func=None):
        ob = r.ob
        if os.environ.get("PYVC_UPDATE_HINTS") == "1" and ob is not None and getattr(r, "stage", ""):
            from . import discharge as _d
            self.hints = getattr(self, "hints", {})
            self.hints[_d.hint_key(ob)] = r.stage
        self.items.append(dict(key=stable_key(r.name, ob.note if ob else ""), name=r.name,
                               func=(ob.func if ob else func) or "", kind=(ob.kind if ob else "lemma"),
                               clause=(ob.note if ob else ""), status=r.status, backend=r.backend,
                               time=round(r.time, 3), model=r.model, reason=r.reason))

    def add_lemma(self, name, status, backend, t, clause="", model=None, func="lemma", reason=""):
        self.items.append(dict(key=name + "|" + clause, name=name, func=func, kind="lemma", clause=clause,
                               status=status, backend=backend, time=round(t, 3), model=model, reason=reason))

    def add_finite(self, name, count, failures):
        """exhaustive native evaluation of a contract over a finite family (back end 'finite-enumeration')"""
        self.finite.append(dict(name=name, count=count, failed=len(failures)))
        self.items.append(dict(key="finite|" + name, name="finite:" + name, func=name, kind="finite-enumeration",
                               clause="%d family members enumerated exhaustively" % count,
                               status="proved" if not failures else "refuted", backend="finite-enumeration",
                               time=0.0, model=None, reason=""))
        for f in failures:
            self.native_failures.append(f)

    # ---- verdict
    def finish(self, oracle=None, known_matcher=None, samples=None, in_scope=None):
        """oracle(item) -> failing-input dict or None : native replay of a failed obligation.
        known_matcher(item_or_failure, entry) -> bool.
        in_scope(item) -> bool : does this obligation belong to the claim of THIS property?  Several properties share the
        contracts of the same functions; a clause that only another property states (e.g. the notification trace of C13 inside
        DoGlobalIteration's contract) is proved under that property's check - here it is a lemma taken from there, and its
        failure is reported as a note, not as a violation of this property."""
        known = [k for k in load_known() if k.get("property") == self.pid and k.get("status") == "known"]
        baseline = load_baseline().get(self.pid, {})
        failed = [it for it in self.items if it["status"] != "proved"]
        self.out_of_scope = []
        if in_scope is not None:
            self.out_of_scope = [it for it in failed if not in_scope(it)]
            failed = [it for it in failed if in_scope(it)]
            for it in self.out_of_scope:
                print("NOTE: obligation %s (%s) is stated by another property's contract clause and is decided by that "
                      "property's check; not part of the claim of %s" % (it["name"], it["status"], self.pid), file=sys.stderr)
            drop = set(id(it) for it in self.out_of_scope)
            self.items = [it for it in self.items if id(it) not in drop]
        bad_covers = [c for c in self.covers if c[1] == "unsat"]
        exit_code = 0
        lines = []
        os.makedirs(REPLAY, exist_ok=True)
        for f in os.listdir(REPLAY):         # replay files of earlier runs of this check are stale
            if f.startswith(self.pid + "-") and f.endswith(".json"):
                os.unlink(os.path.join(REPLAY, f))
        undecided = []
        known_obl = []
        for it in failed:
            # 1. known finding?
            hit = None
            for k in known:
                if known_matcher and known_matcher(it, k):
                    hit = k
                    break
            if hit:
                known_obl.append(dict(obligation=it["name"], finding=hit.get("key"), model=_short(it.get("model"))))
                if hit not in self.known_hits:
                    self.known_hits.append(hit)
                continue
            # 2. replay
            failing = None
            if oracle is not None:
                try:
                    failing = oracle(it)
                except Exception as e:   # replay harness problems never become verdicts
                    failing = None
                    it["replay_error"] = repr(e)[:1500]
                    print("REPLAY-HARNESS problem for %s: %s" % (it["name"], it["replay_error"]), file=sys.stderr)
            if failing is not None:
                # a failing input that is itself a known finding?
                hit = None
                for k in known:
                    if known_matcher and known_matcher(failing, k):
                        hit = k
                        break
                if hit:
                    known_obl.append(dict(obligation=it["name"], finding=hit.get("key"), input=failing))
                    if hit not in self.known_hits:
                        self.known_hits.append(hit)
                    continue
                path = self._write_replay(it, failing)
                self.violations.append(dict(obligation=it["name"], replay=path, failing_input=failing))
                lines.append("VIOLATION property=%s replay=%s" % (self.pid, path))
                continue
            was_proved = baseline.get(it["key"]) == "proved"
            if it["status"] == "refuted" or was_proved:
                path = self._write_replay(it, None)
                self.violations.append(dict(obligation=it["name"], replay=path, failing_input=None))
                lines.append("VIOLATION property=%s replay=%s no-failing-input-found" % (self.pid, path))
            else:
                undecided.append(it)
        # thorough tier: besides deciding every obligation with the solver (no memo), the contracts are also evaluated at run
        # time on the real code by the native replay oracle over its whole configuration list.  Bounded, never counted as
        # proof; a failing input it finds is a violation replayed on the real code.
        if self.tier == "thorough" and oracle is not None and not self.violations:
            pseudo = dict(name="thorough:run-time-contract-check", clause="contracts evaluated at run time on the real code "
                          "(native oracle, fixed configuration list)", model=None, status="unknown", reason="", func="",
                          key="thorough:oracle", kind="runtime")
            failing = None
            try:
                failing = oracle(pseudo)
            except Exception as e:
                print("REPLAY-HARNESS problem in the thorough run-time check: %r" % (e,), file=sys.stderr)
            self.bounded.append(dict(what="run-time evaluation of the contracts on the real code by the native replay oracle "
                                          "(its fixed list of configurations and histories)", bound="oracle configuration list",
                                     counted_as_proof=False, failing_input_found=failing is not None))
            if failing is not None:
                hit = None
                for k in known:
                    if known_matcher and known_matcher(failing, k):
                        hit = k
                        break
                if hit:
                    if hit not in self.known_hits:
                        self.known_hits.append(hit)
                else:
                    path = self._write_replay(pseudo, failing)
                    self.violations.append(dict(obligation=pseudo["name"], replay=path, failing_input=failing))
                    lines.append("VIOLATION property=%s replay=%s" % (self.pid, path))
        # functions the verifier could not bring within reach (unsupported construct after a code change): the
        # obligations are undecided; the replay oracle is still asked for a failing input on the real code
        still_errors = []
        for where, err in self.errors:
            pseudo = dict(name="undecided:%s" % where, clause=err, model=None, status="unknown", reason=err,
                          func=where, key="undecided:" + where)
            failing = None
            if oracle is not None and not self.violations:
                try:
                    failing = oracle(pseudo)
                except Exception as e:
                    print("REPLAY-HARNESS problem for %s: %r" % (where, e), file=sys.stderr)
            if failing is not None and not any(known_matcher and known_matcher(failing, k) for k in known):
                path = self._write_replay(pseudo, failing)
                self.violations.append(dict(obligation=pseudo["name"], replay=path, failing_input=failing))
                lines.append("VIOLATION property=%s replay=%s" % (self.pid, path))
            else:
                still_errors.append((where, err))
        self.errors = still_errors if not self.violations else self.errors
        for f in self.native_failures:
            hit = None
            for k in known:
                if known_matcher and known_matcher(f, k):
                    hit = k
                    break
            if hit:
                if hit not in self.known_hits:
                    self.known_hits.append(hit)
                continue
            path = self._write_replay(dict(name=f.get("what", "native"), clause=f.get("what", ""), model=None,
                                           status="refuted", reason="native evaluation of the contract failed",
                                           func=f.get("func", "")), f)
            self.violations.append(dict(obligation=f.get("what"), replay=path, failing_input=f))
            lines.append("VIOLATION property=%s replay=%s" % (self.pid, path))
        for k in self.known_hits:
            print("KNOWN-FINDING: property=%s %s" % (self.pid, k.get("what")))
        for l in dict.fromkeys(lines):
            print(l)
        if self.violations:
            exit_code = 1
        elif self.errors or undecided or bad_covers:
            exit_code = 2
        if bad_covers:
            print("ENGINE: vacuous hypotheses: %s" % bad_covers, file=sys.stderr)
            exit_code = max(exit_code, 3) if not self.violations else 1
        for w, e in self.errors:
            print("UNDECIDED %s: %s" % (w, e), file=sys.stderr)
        for it in undecided:
            print("UNDECIDED obligation %s (%s): %s" % (it["name"], it["status"], it.get("reason", "")), file=sys.stderr)
        known_keys = set(o["obligation"] for o in known_obl)
        claimed = [it for it in self.items if it["name"] not in known_keys]
        n_ob = len(claimed)
        n_dis = sum(1 for it in claimed if it["status"] == "proved")
        by_backend = {}
        for it in claimed:
            if it["status"] == "proved":
                by_backend[it["backend"]] = by_backend.get(it["backend"], 0) + 1
        smp = samples or []
        if not smp:
            import random
            rnd = random.Random(self.seed)
            pool = [it for it in claimed if it["status"] == "proved"]
            for it in rnd.sample(pool, min(6, len(pool))):
                smp.append(dict(obligation=it["name"], function=it["func"], kind=it["kind"], clause=it["clause"][:300],
                                backend=it["backend"], time_s=it["time"]))
        ev = {
            "property_id": self.pid, "tier": self.tier, "seed": self.seed, "level": self.level,
            "coverage": {
                "obligations": n_ob, "discharged": n_dis,
                "checker_cmd": "./check %s --tier %s" % (self.pid, self.tier),
                "trusted_base": self.trusted,
                "functions_under_contract": sorted(self.functions),
                "by_backend": by_backend,
                "solver_time_s": round(sum(it["time"] for it in self.items), 2),
                "configurations": sorted(self.configs),
                "inlined": sorted(self.inlined),
                "bounded_stand_ins": self.bounded,
                "finite_families": self.finite,
                "known_findings": [k.get("key") for k in self.known_hits],
                "failed_lemmas_of_other_properties": [dict(obligation=it["name"], status=it["status"], clause=it["clause"][:200])
                                                      for it in getattr(self, "out_of_scope", [])],
                "known_finding_obligations": known_obl,
                "vacuity_covers": {"checked": len(self.covers), "sat": sum(1 for c in self.covers if c[1] == "sat"),
                                   "undecided": [c[0] for c in self.covers if c[1] not in ("sat", "unsat")]},
                "slowest": [dict(obligation=it["name"], time_s=it["time"], backend=it["backend"])
                            for it in sorted(self.items, key=lambda i: -i["time"])[:5]],
                "undecided": [dict(obligation=it["name"], status=it["status"]) for it in undecided] +
                             [dict(where=w, error=e) for w, e in self.errors],
                "samples": smp,
                "exhaustive": bool(self.finite) and all(f["failed"] == 0 for f in self.finite),
                "evaluations": n_ob, "distinct_nontrivial": len(set(it["key"] for it in claimed)),
                "rule": "one evaluation = one verification condition generated from /repo's current source and a "
                        "sidecar contract clause; distinct by (function, kind, configuration, clause text)",
            },
            "assumptions": self.assumptions,
            "wall_s": round(time.time() - self.t0, 2),
            "violations": len(self.violations),
        }
        ev["coverage"].update(self.extra)
        os.makedirs(EVID, exist_ok=True)
        evpath = os.path.join(EVID, "%s.json" % self.pid)
        if os.environ.get("PYVC_NOEVIDENCE") == "1":      # development runs against scratch copies
            evpath = os.path.join("/tmp", "pyvc-evidence-%s.json" % self.pid)
        with open(evpath, "w") as f:
            json.dump(ev, f, indent=1, default=str)
        print("%s %s: %d/%d obligations discharged, %d violation(s), %d undecided, %d known finding(s), %.1fs -> exit %d"
              % (self.pid, self.tier, n_dis, n_ob, len(self.violations), len(undecided) + len(self.errors),
                 len(self.known_hits), time.time() - self.t0, exit_code))
        if os.environ.get("PYVC_UPDATE_HINTS") == "1" and getattr(self, "hints", None):
            from . import discharge as _d
            try:
                h = json.load(open(_d.HINTS_FILE))
            except Exception:
                h = {}
            h.update(self.hints)
            json.dump(h, open(_d.HINTS_FILE, "w"), indent=0, sort_keys=True)
        if os.environ.get("PYVC_UPDATE_BASELINE") == "1" and exit_code == 0:
            b = load_baseline()
            b[self.pid] = {it["key"]: "proved" for it in claimed if it["status"] == "proved"}
            json.dump(b, open(BASELINE, "w"), indent=0, sort_keys=True)
        return exit_code

    def _write_replay(self, it, failing):
        h = hashlib.sha1((it["name"] + json.dumps(failing, sort_keys=True, default=str)).encode()).hexdigest()[:10]
        path = os.path.join(REPLAY, "%s-%s.json" % (self.pid, h))
        doc = {
            "property": self.pid,
            "failed_obligation": it["name"],
            "function": it.get("func"),
            "clause": it.get("clause"),
            "solver_status": it.get("status"),
            "solver_reason": it.get("reason"),
            "counter_model": _short(it.get("model")),
            "failing_input": failing,
            "replayed_on_real_code": failing is not None,
            "replay_cmd": "./check %s --replay %s" % (self.pid, path),
        }
        with open(path, "w") as f:
            json.dump(doc, f, indent=1, default=str)
        return path


def _short(model):
    if not model:
        return model
    out = {}
    for k, v in model.items():
        v = str(v)
        out[k] = v if len(v) < 200 else v[:200] + "..."
    return out
