"""Eager, bounded quantifier instantiation (own e-matching, a fixed number of rounds, no matching loops).

z3's incremental e-matching is the unstable part of the sequence/heap proofs (offset triggers such as seq[k+1] create
unbounded instantiation chains, and which chain wins depends on the search order).  For an obligation  H1..Hn |- G
this module builds a *weaker* hypothesis set in which every universally quantified hypothesis (in positive position) is
replaced by the conjunction of its instances at the ground terms that match one of its triggers, for a fixed number of
rounds; existential positions (negated goal, nested `not forall`) are skolemised.  `unsat` on the result is a proof of the
original obligation (hypotheses were only weakened, the goal only skolemised); anything else is inconclusive and the
ordinary pipeline takes over."""
import z3

MAX_INST = 8000


def _is_var(e):
    return z3.is_var(e)


def _has_var(e, cache):
    i = e.get_id()
    if i in cache:
        return cache[i]
    if z3.is_var(e):
        cache[i] = True
        return True
    if z3.is_quantifier(e):
        r = True            # treat a nested quantifier as non-ground for indexing purposes
    else:
        r = any(_has_var(c, cache) for c in e.children())
    cache[i] = r
    return r


def _heads(pattern_terms):
    hs = set()
    for p in pattern_terms:
        if z3.is_app(p):
            hs.add(p.decl().name() if p.decl().kind() == z3.Z3_OP_UNINTERPRETED else p.decl().kind())
    return hs


def _head(t):
    return t.decl().name() if t.decl().kind() == z3.Z3_OP_UNINTERPRETED else t.decl().kind()


def _match(p, t, binding, vcache):
    """one-way matching of pattern p (with de-Bruijn variables) against ground term t"""
    if z3.is_var(p):
        idx = z3.get_var_index(p)
        if idx in binding:
            return binding[idx].eq(t) or z3.simplify(binding[idx] == t).eq(z3.BoolVal(True, t.ctx))
        if p.sort() != t.sort():
            return False
        binding[idx] = t
        return True
    if not _has_var(p, vcache):
        return p.eq(t)
    if not z3.is_app(p) or not z3.is_app(t):
        return False
    # k + c  /  c + k  against an arbitrary integer term
    if z3.is_add(p) and p.num_args() == 2 and z3.is_int(p):
        a, b = p.arg(0), p.arg(1)
        if z3.is_var(a) and z3.is_int_value(b):
            return _match(a, z3.simplify(t - b), binding, vcache)
        if z3.is_var(b) and z3.is_int_value(a):
            return _match(b, z3.simplify(t - a), binding, vcache)
        # k + g  /  g + k  with a ground (symbolic) offset g:  k := t - g
        if z3.is_var(a) and not _has_var(b, vcache):
            return _match(a, z3.simplify(t - b), binding, vcache)
        if z3.is_var(b) and not _has_var(a, vcache):
            return _match(b, z3.simplify(t - a), binding, vcache)
    # n-ary sum with exactly one bound variable and ground other summands:  k := t - (the rest)
    if z3.is_add(p) and p.num_args() > 2 and z3.is_int(p):
        ch = p.children()
        vs = [c for c in ch if z3.is_var(c)]
        rest = [c for c in ch if not z3.is_var(c)]
        if len(vs) == 1 and all(not _has_var(c, vcache) for c in rest):
            return _match(vs[0], z3.simplify(t - z3.Sum(rest)), binding, vcache)
    if p.decl().kind() != t.decl().kind() or p.num_args() != t.num_args():
        return False
    if p.decl().kind() == z3.Z3_OP_UNINTERPRETED and p.decl().name() != t.decl().name():
        return False
    for pc, tc in zip(p.children(), t.children()):
        if not _match(pc, tc, binding, vcache):
            return False
    return True


class Instantiator:
    def __init__(self):
        self.vcache = {}
        self.index = {}            # head -> list of ground terms
        self.seen_terms = set()
        self.done = set()          # (quantifier id, binding key)
        self.count = 0
        self.fresh = 0
        self.alias = {}            # array term id -> arrays it is equated with / built from (A = store(B, ..), ite)
        self.auto_pats = {}

    def note_array_equalities(self, e):
        """ground equalities between arrays (at any position): a select on one side is also a candidate index for
        triggers on the other side (extra instances are always sound)"""
        stack, seen = [e], set()
        while stack:
            x = stack.pop()
            if x.get_id() in seen:
                continue
            seen.add(x.get_id())
            if z3.is_quantifier(x):
                continue
            if z3.is_app(x):
                if x.decl().kind() == z3.Z3_OP_EQ and z3.is_array(x.arg(0)) and not _has_var(x, self.vcache):
                    a, b = x.arg(0), x.arg(1)
                    self.alias.setdefault(a.get_id(), []).append(b)
                    self.alias.setdefault(b.get_id(), []).append(a)
                stack.extend(x.children())

    def related_arrays(self, a, depth=3):
        out, todo, seen = [], [(a, 0)], {a.get_id()}
        while todo:
            x, d = todo.pop()
            nxt = list(self.alias.get(x.get_id(), ()))
            if z3.is_app(x):
                k = x.decl().kind()
                if k == z3.Z3_OP_STORE:
                    nxt.append(x.arg(0))
                elif k == z3.Z3_OP_ITE:
                    nxt += [x.arg(1), x.arg(2)]
            for y in nxt:
                if y.get_id() not in seen and d < depth:
                    seen.add(y.get_id())
                    out.append(y)
                    todo.append((y, d + 1))
        return out

    def auto_patterns(self, q):
        """a quantifier without explicit triggers: every select on a ground array whose index mentions a bound variable"""
        i = q.get_id()
        if i in self.auto_pats:
            return self.auto_pats[i]
        pats, stack, seen = [], [q.body()], set()
        while stack:
            x = stack.pop()
            if x.get_id() in seen:
                continue
            seen.add(x.get_id())
            if z3.is_quantifier(x):
                continue
            if z3.is_app(x):
                if x.decl().kind() == z3.Z3_OP_SELECT and not _has_var(x.arg(0), self.vcache) and _has_var(x.arg(1), self.vcache):
                    idx = x.arg(1)
                    ok = z3.is_var(idx) or (z3.is_add(idx) and sum(1 for c in idx.children() if z3.is_var(c)) == 1 and
                                            all(z3.is_var(c) or not _has_var(c, self.vcache) for c in idx.children()))
                    if ok:
                        pats.append([x])
                stack.extend(x.children())
        self.auto_pats[i] = pats
        return pats

    def collect(self, e):
        stack = [e]
        while stack:
            x = stack.pop()
            i = x.get_id()
            if i in self.seen_terms:
                continue
            self.seen_terms.add(i)
            if z3.is_quantifier(x):
                stack.append(x.body())
                continue
            if z3.is_app(x):
                if x.num_args() > 0 and not _has_var(x, self.vcache):
                    k = x.decl().kind()
                    if k == z3.Z3_OP_SELECT:
                        self.index.setdefault(("sel", x.arg(0).get_id()), []).append(x)
                        if z3.is_int(x.arg(1)) and (x.arg(0).get_id() in self.alias or
                                                    x.arg(0).decl().kind() in (z3.Z3_OP_STORE, z3.Z3_OP_ITE)):
                            for b in self.related_arrays(x.arg(0)):
                                if b.sort() == x.arg(0).sort():
                                    self.index.setdefault(("sel", b.get_id()), []).append(z3.Select(b, x.arg(1)))
                    elif k == z3.Z3_OP_UNINTERPRETED:
                        self.index.setdefault(("uf", x.decl().name()), []).append(x)
                stack.extend(x.children())

    def skolemize(self, e, pol):
        """replace existential positions by fresh constants (pol: +1 the formula is asserted, -1 it is refuted)"""
        if z3.is_quantifier(e):
            if (e.is_forall() and pol < 0) or (e.is_exists() and pol > 0):
                consts = []
                for i in range(e.num_vars()):
                    self.fresh += 1
                    consts.append(z3.Const("sk!%s!%d" % (e.var_name(i), self.fresh), e.var_sort(i)))
                body = z3.substitute_vars(e.body(), *reversed(consts))
                return self.skolemize(body, pol)
            return e
        if not z3.is_app(e) or not z3.is_bool(e):
            return e
        k = e.decl().kind()
        if k == z3.Z3_OP_NOT:
            return z3.Not(self.skolemize(e.arg(0), -pol))
        if k == z3.Z3_OP_AND:
            return z3.And(*[self.skolemize(c, pol) for c in e.children()])
        if k == z3.Z3_OP_OR:
            return z3.Or(*[self.skolemize(c, pol) for c in e.children()])
        if k == z3.Z3_OP_IMPLIES:
            return z3.Implies(self.skolemize(e.arg(0), -pol), self.skolemize(e.arg(1), pol))
        return e

    def instances(self, q):
        """new instances of the universally quantified formula q at the indexed ground terms"""
        out = []
        nv = q.num_vars()
        pats = []
        for i in range(q.num_patterns()):
            pt = q.pattern(i)
            pats.append([pt.arg(j) for j in range(pt.num_args())])
        if nv == 1:
            # besides the explicit triggers: every select of the body whose index is the bound variable (+ offset)
            have = {mp[0].get_id() for mp in pats if len(mp) == 1}
            pats = pats + [mp for mp in self.auto_patterns(q) if mp[0].get_id() not in have]
        if not pats:
            return None
        for mp in pats:
            if len(mp) != 1:
                continue          # multi-patterns are left to the solver
            p = mp[0]
            if not z3.is_app(p):
                continue
            if p.decl().kind() == z3.Z3_OP_SELECT and not _has_var(p.arg(0), self.vcache):
                key0 = ("sel", p.arg(0).get_id())
            elif p.decl().kind() == z3.Z3_OP_UNINTERPRETED:
                key0 = ("uf", p.decl().name())
            else:
                continue
            for t in list(self.index.get(key0, ())):
                b = {}
                if not _match(p, t, b, self.vcache) or len(b) != nv:
                    continue
                key = (q.get_id(), tuple(z3.simplify(b[i]).get_id() for i in range(nv)))
                if key in self.done:
                    continue
                self.done.add(key)
                self.count += 1
                if self.count > MAX_INST:
                    return out
                # Var(0) is the innermost (last) bound variable
                subs = [b[i] for i in range(nv)]
                out.append(z3.substitute_vars(q.body(), *subs))
        return out

    def expand(self, e, pol, acc):
        """positive universal quantifiers -> their current instances (collected into acc keyed by position);
        returns the formula with those quantifiers replaced by True (their instances are asserted separately, guarded)"""
        # implemented by the caller through `walk`
        raise NotImplementedError


def _walk_positive_foralls(e, pol, guard, found):
    """collect (quantifier, guard) for universal quantifiers in positive position; guard = list of literals that must
    hold for the quantified sub-formula to be asserted (from enclosing implications / disjunctions)"""
    if z3.is_quantifier(e):
        if e.is_forall() and pol > 0:
            found.append((e, list(guard)))
        return
    if not z3.is_app(e) or not z3.is_bool(e):
        return
    k = e.decl().kind()
    if k == z3.Z3_OP_AND and pol > 0:
        for c in e.children():
            _walk_positive_foralls(c, pol, guard, found)
    elif k == z3.Z3_OP_OR and pol > 0:
        ch = e.children()
        for i, c in enumerate(ch):
            others = [z3.Not(o) for j, o in enumerate(ch) if j != i]
            _walk_positive_foralls(c, pol, guard + others, found)
    elif k == z3.Z3_OP_IMPLIES and pol > 0:
        _walk_positive_foralls(e.arg(1), pol, guard + [e.arg(0)], found)
    elif k == z3.Z3_OP_NOT:
        inner = e.arg(0)
        if z3.is_app(inner) and inner.decl().kind() == z3.Z3_OP_NOT:
            _walk_positive_foralls(inner.arg(0), pol, guard, found)


def _contains_quantifier(e, cache):
    i = e.get_id()
    if i in cache:
        return cache[i]
    if z3.is_quantifier(e):
        cache[i] = True
        return True
    r = any(_contains_quantifier(c, cache) for c in e.children())
    cache[i] = r
    return r


def instantiate(hyps, goal, rounds=4):
    """returns a list of quantifier-light assertions whose unsatisfiability proves  hyps |- goal, or None"""
    inst = Instantiator()
    qcache = {}
    ground, quants = [], []
    neg_goal = inst.skolemize(z3.Not(goal), +1)
    for h in hyps:
        h2 = inst.skolemize(h, +1)
        if _contains_quantifier(h2, qcache):
            found = []
            _walk_positive_foralls(h2, +1, [], found)
            quants.extend(found)
            # the quantifier-free skeleton of h2 is not kept: only instances are asserted
        else:
            ground.append(h2)
    if _contains_quantifier(neg_goal, qcache):
        # universal quantifiers in positive position of the negated goal (antecedents `forall ... ->` of the goal)
        found = []
        _walk_positive_foralls(neg_goal, +1, [], found)
        quants.extend(found)
    work = list(ground) + [neg_goal]
    for w in work:
        inst.note_array_equalities(w)
    for w in work:
        inst.collect(w)
    out = list(work)
    for rnd in range(rounds):
        new = []
        for q, guard in quants:
            ins = inst.instances(q)
            if not ins:
                continue
            for body in ins:
                body = inst.skolemize(body, +1)
                f = z3.Implies(z3.And(*guard), body) if guard else body
                new.append(f)
                # nested positive universals inside an instance take part in the next rounds
                if _contains_quantifier(body, qcache):
                    found = []
                    _walk_positive_foralls(body, +1, list(guard), found)
                    quants.extend(found)
        if not new:
            break
        for f in new:
            inst.collect(f)
        out.extend(new)
        if inst.count > MAX_INST:
            break
    return out
