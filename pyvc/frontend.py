"""Frontend: re-parse /repo's current working tree on every run and build tables of
modules / classes / functions.  Nothing here is a model: the FunctionDef nodes returned are the
ones CPython would compile."""
import ast, os, hashlib

REPO = os.environ.get("PYVC_REPO", "/repo")


def mangle(cls, name):
    """CPython private-name mangling inside class `cls`."""
    if cls and name.startswith("__") and not name.endswith("__"):
        return "_" + cls.lstrip("_") + name
    return name


class ClassInfo:
    def __init__(self, name, node, module):
        self.name = name
        self.node = node
        self.module = module
        self.bases = []
        for b in node.bases:
            if isinstance(b, ast.Name):
                self.bases.append(b.id)
            elif isinstance(b, ast.Attribute):
                self.bases.append(b.attr)
        self.methods = {}      # mangled-free source name -> FunctionDef
        self.class_attrs = {}  # name -> ast expr
        self.decorators = {}
        for st in node.body:
            if isinstance(st, ast.FunctionDef):
                decs = [d.id if isinstance(d, ast.Name) else (d.attr if isinstance(d, ast.Attribute) else "?")
                        for d in st.decorator_list]
                if "setter" in decs:
                    self.methods[st.name + ".setter"] = st
                    self.decorators[st.name + ".setter"] = decs
                else:
                    self.methods[st.name] = st
                    self.decorators[st.name] = decs
            elif isinstance(st, ast.Assign):
                for t in st.targets:
                    if isinstance(t, ast.Name):
                        self.class_attrs[t.id] = st.value
            elif isinstance(st, ast.AnnAssign) and st.value is not None and isinstance(st.target, ast.Name):
                self.class_attrs[st.target.id] = st.value


class ModuleInfo:
    def __init__(self, relpath, src):
        self.relpath = relpath
        self.src = src
        self.tree = ast.parse(src, filename=relpath)
        self.classes = {}
        self.functions = {}
        self.imports = {}      # local name -> dotted target ("numpy", "iOpt.trial.Point", ...)
        self.globals = {}      # name -> ast expr (module-level assignments)
        for st in self.tree.body:
            if isinstance(st, ast.ClassDef):
                self.classes[st.name] = ClassInfo(st.name, st, self)
            elif isinstance(st, ast.FunctionDef):
                self.functions[st.name] = st
            elif isinstance(st, ast.Import):
                for a in st.names:
                    self.imports[a.asname or a.name.split(".")[0]] = a.name if a.asname else a.name.split(".")[0]
            elif isinstance(st, ast.ImportFrom):
                for a in st.names:
                    self.imports[a.asname or a.name] = (st.module or "") + "." + a.name
            elif isinstance(st, ast.Assign):
                for t in st.targets:
                    if isinstance(t, ast.Name):
                        self.globals[t.id] = st.value
            elif isinstance(st, ast.AnnAssign) and st.value is not None and isinstance(st.target, ast.Name):
                self.globals[st.target.id] = st.value


class Repo:
    """All python modules under <root>/iOpt."""

    def __init__(self, root=None):
        self.root = root or REPO
        self.modules = {}
        self.classes = {}
        base = os.path.join(self.root, "iOpt")
        for dp, dn, fn in os.walk(base):
            dn[:] = [d for d in dn if d != "__pycache__"]
            for f in sorted(fn):
                if f.endswith(".py"):
                    p = os.path.join(dp, f)
                    rel = os.path.relpath(p, self.root)
                    try:
                        src = open(p, encoding="utf-8").read()
                        mi = ModuleInfo(rel, src)
                    except SyntaxError as e:  # pragma: no cover
                        raise RuntimeError("cannot parse %s: %s" % (rel, e))
                    self.modules[rel] = mi
                    for cn, ci in mi.classes.items():
                        # later definitions with the same simple name are kept under module-qualified key as well
                        self.classes.setdefault(cn, ci)
                        self.classes[rel + "::" + cn] = ci

    def module(self, rel):
        return self.modules[rel]

    def cls(self, name):
        return self.classes.get(name)

    def mro(self, cname):
        out = []
        seen = set()

        def rec(n):
            ci = self.classes.get(n)
            if ci is None or n in seen:
                return
            seen.add(n)
            out.append(ci)
            for b in ci.bases:
                rec(b)
        rec(cname)
        return out

    def find_method(self, cname, mname):
        """Static MRO lookup; returns (ClassInfo, FunctionDef) or (None, None)."""
        for ci in self.mro(cname):
            if mname in ci.methods:
                return ci, ci.methods[mname]
        return None, None

    def func(self, rel, qual):
        """qual = 'Class.method' or 'function'."""
        mi = self.modules[rel]
        if "." in qual:
            c, m = qual.split(".", 1)
            return mi.classes[c].methods[m]
        return mi.functions[qual]

    def func_hash(self, rel, qual):
        """Hash of the normalised AST (doc-strings and annotations dropped)."""
        return hashlib.sha256(norm_dump(self.func(rel, qual)).encode()).hexdigest()[:16]


def strip_doc(body):
    if body and isinstance(body[0], ast.Expr) and isinstance(getattr(body[0], "value", None), ast.Constant) \
            and isinstance(body[0].value.value, str):
        return body[1:]
    return body


def norm_dump(fn):
    import copy
    f = copy.deepcopy(fn)
    f.body = strip_doc(f.body) or [ast.Pass()]
    f.returns = None
    for a in f.args.args + f.args.kwonlyargs:
        a.annotation = None
    return ast.dump(f, annotate_fields=False, include_attributes=False)


def loops_of(fn):
    """Loops of a function in source order (pre-order), used as 'loop ordinal'."""
    out = []

    class V(ast.NodeVisitor):
        def visit_For(self, n):
            out.append(n)
            self.generic_visit(n)

        def visit_While(self, n):
            out.append(n)
            self.generic_visit(n)
    V().visit(fn)
    return out
