"""Discharge obligations in parallel: z3 first, cvc5 takes z3's unknowns.  Obligations travel to the workers as
SMT-LIB2 text (z3 ASTs are not picklable), which is also what is handed to cvc5."""
import os, time, subprocess, tempfile, re
import concurrent.futures as cf
import multiprocessing as mp
import z3

NPROC = int(os.environ.get("PYVC_JOBS", "14"))
_POOL = None


def pool():
    global _POOL
    if _POOL is None:
        ctx = mp.get_context("forkserver")
        _POOL = cf.ProcessPoolExecutor(max_workers=NPROC, mp_context=ctx)
    return _POOL


def _descendants(root):
    kids = {}
    for d in os.listdir("/proc"):
        if d.isdigit():
            try:
                with open("/proc/%s/stat" % d) as f:
                    parts = f.read().rsplit(")", 1)[1].split()
                kids.setdefault(int(parts[1]), []).append(int(d))
            except Exception:
                pass
    out, stack = [], [root]
    while stack:
        p = stack.pop()
        for k in kids.get(p, []):
            out.append(k)
            stack.append(k)
    return out


def shutdown():
    """terminate the solver workers, the fork server and the resource tracker (no orphans holding our stdout)"""
    global _POOL
    import signal
    if _POOL is not None:
        try:
            _POOL.shutdown(wait=False, cancel_futures=True)
        except Exception:
            pass
        _POOL = None
    for pid in _descendants(os.getpid()):
        try:
            os.kill(pid, signal.SIGKILL)
        except Exception:
            pass


def to_smt2(hyps, goal, negate_goal=True):
    s = z3.Solver()
    for h in hyps:
        s.add(h)
    if goal is not None:
        s.add(z3.Not(goal) if negate_goal else goal)
    return s.to_smt2()


def _model_dict(m):
    out = {}
    for d in m.decls():
        try:
            v = m[d]
            if d.arity() == 0:
                out[d.name()] = str(v)
        except Exception:
            pass
    return out


Z3_CLI = "z3-new"          # the z3-solver wheel's CLI (same 5.1.0 build as the Python API)


def _solve_cli(smt2, timeout_ms, seed=0):
    """z3 as a sub-process with a hard wall-clock limit (the in-process API occasionally fails to honour its own
    timeout on quantifier-heavy queries, which would hang a pool worker for good)."""
    t0 = time.time()
    sec = max(1, int((timeout_ms + 999) // 1000))
    d = "/dev/shm" if os.path.isdir("/dev/shm") else None
    with tempfile.NamedTemporaryFile("w", suffix=".smt2", delete=False, dir=d) as f:
        f.write(smt2)
        path = f.name
    try:
        cmd = [Z3_CLI, "-T:%d" % sec, "smt.random_seed=%d" % seed, path]
        try:
            p = subprocess.run(cmd, capture_output=True, text=True, timeout=sec + 10)
            out = (p.stdout or "").strip().splitlines()
            r = out[0].strip() if out else "unknown"
        except subprocess.TimeoutExpired:
            r = "timeout"
        if r not in ("sat", "unsat"):
            return "unknown", None, time.time() - t0, "timeout" if r == "timeout" else r[:80]
        return r, None, time.time() - t0, ""
    finally:
        try:
            os.unlink(path)
        except OSError:
            pass


def _solve(smt2, timeout_ms, tactic, want_model, seed=0):
    if tactic is None:
        r, _, t, reason = _solve_cli(smt2, timeout_ms, seed)
        if r != "sat" or not want_model:
            return r, ({} if r == "sat" else None), t, reason
        # satisfiable: fetch the model through the API (quick for satisfiable queries; watchdog below)
        r2, model, t2, reason2 = _solve_api(smt2, min(timeout_ms, 15000), None, True, seed)
        return "sat", (model if r2 == "sat" and model is not None else {}), t + t2, reason
    return _solve_api(smt2, timeout_ms, tactic, want_model, seed)


def _solve_api(smt2, timeout_ms, tactic, want_model, seed=0):
    import z3 as Z
    import threading
    t0 = time.time()
    try:
        # a fresh context per query: z3's search order depends on AST identifiers, i.e. on everything the context
        # has seen before; with a fresh context the verdict is a function of the query text (and the seed) only
        ctx = Z.Context()
        if tactic:
            s = Z.Tactic(tactic, ctx=ctx).solver()
        else:
            s = Z.Solver(ctx=ctx)
        s.set("timeout", int(timeout_ms))
        if seed:
            s.set("random_seed", seed)
        s.from_string(smt2)
        wd = threading.Timer(timeout_ms / 1000.0 + 5.0, ctx.interrupt)
        wd.daemon = True
        wd.start()
        try:
            r = s.check()
        finally:
            wd.cancel()
        res = str(r)
        model = None
        if r == Z.sat and want_model:
            try:
                model = _model_dict(s.model())
            except Exception:
                model = {}
        reason = s.reason_unknown() if r == Z.unknown else ""
        return res, model, time.time() - t0, reason
    except Exception as e:   # pragma: no cover
        return "error", None, time.time() - t0, repr(e)


def _cvc5(smt2, timeout_ms):
    t0 = time.time()
    txt = smt2
    if "(set-logic" not in txt:
        txt = "(set-logic ALL)\n" + txt
    with tempfile.NamedTemporaryFile("w", suffix=".smt2", delete=False) as f:
        f.write(txt)
        path = f.name
    try:
        p = subprocess.run(["/usr/bin/cvc5", "--lang=smt2", "--tlimit=%d" % timeout_ms, path],
                           capture_output=True, text=True, timeout=timeout_ms / 1000.0 + 10)
        out = (p.stdout or "").strip().splitlines()
        r = out[0] if out else "unknown"
        if r not in ("sat", "unsat", "unknown"):
            r = "unknown"
        return r, None, time.time() - t0, (p.stderr or "")[:200]
    except Exception as e:
        return "unknown", None, time.time() - t0, repr(e)
    finally:
        os.unlink(path)


class Result:
    __slots__ = ("name", "status", "backend", "time", "model", "reason", "ob", "stage")

    def __init__(self, name, status, backend, time_, model=None, reason="", ob=None, stage=""):
        self.name, self.status, self.backend, self.time, self.model, self.reason, self.ob = \
            name, status, backend, time_, model, reason, ob
        self.stage = stage


HINTS_FILE = os.path.join(os.path.dirname(os.path.dirname(os.path.abspath(__file__))), "proof_hints.json")
_HINTS = None


def hint_key(ob):
    import hashlib
    base = re.sub(r":L\d+#\d+", "", ob.name) + "|" + (ob.note or "")
    return hashlib.sha1(base.encode()).hexdigest()[:16]


def load_hints():
    """proof_hints.json: which stage of the pipeline proved an obligation last time (pure search-order advice: a stage is
    tried first, every verdict is still produced by the solver on the query generated from the current source)"""
    global _HINTS
    if _HINTS is None:
        try:
            import json
            _HINTS = json.load(open(HINTS_FILE))
        except Exception:
            _HINTS = {}
    return _HINTS


class SerialOb:
    """picklable obligation: SMT-LIB2 text instead of z3 ASTs (crosses process boundaries)"""
    __slots__ = ("name", "kind", "func", "line", "note", "smt2", "smt2_qf", "slices", "coi", "trivial")

    def __init__(self, name, kind, func, line, note, smt2, smt2_qf=None, slices=(), coi=None):
        self.name, self.kind, self.func, self.line, self.note = name, kind, func, line, note
        self.smt2, self.smt2_qf = smt2, smt2_qf
        self.slices = list(slices)      # sub-sets of the hypotheses (unsat there is a proof), tried before the full query
        self.coi = coi                  # cone-of-influence sub-set (see _coi_pick)
        self.trivial = False            # the goal is literally one of the hypotheses


_INFO_CACHE = {}


def _hyp_info(e):
    """(uninterpreted symbols, has quantifier, mentions a real-sorted term, number of nodes) of a formula"""
    k = e.get_id()
    r = _INFO_CACHE.get(k)
    if r is not None:
        return r
    out, seen, stack = set(), set(), [e]
    q = real = False
    n = 0
    while stack:
        x = stack.pop()
        i = x.get_id()
        if i in seen:
            continue
        seen.add(i)
        n += 1
        if z3.is_quantifier(x):
            q = True
            stack.append(x.body())
            continue
        if z3.is_app(x):
            if x.sort().kind() == z3.Z3_REAL_SORT:
                real = True
            if x.decl().kind() == z3.Z3_OP_UNINTERPRETED:
                out.add(x.decl().name())
            stack.extend(x.children())
    if len(_INFO_CACHE) > 200000:
        _INFO_CACHE.clear()
    r = _INFO_CACHE[k] = (frozenset(out), q, real, n)
    return r


def _coi_pick(hyps, goal, maxfreq=12, rounds=3, small=100):
    """cone of influence: hypotheses reachable from the goal through RARE symbols (symbols occurring in at most `maxfreq`
    hypotheses: havoc constants, loop counters, ghost views of the moment), plus every small quantifier-free hypothesis
    without real arithmetic (aliasing facts, allocation order, scalar relations).  A sub-set of the hypotheses: `unsat`
    there is a proof of the obligation; anything else is inconclusive."""
    import collections
    infos = [_hyp_info(h) for h in hyps]
    freq = collections.Counter(c for inf in infos for c in inf[0])
    cur = set(_hyp_info(goal)[0])
    picked = set()
    for _ in range(rounds):
        rare = {c for c in cur if freq[c] <= maxfreq}
        new = [i for i, inf in enumerate(infos) if i not in picked and (inf[0] & rare)]
        if not new:
            break
        for i in new:
            picked.add(i)
            cur |= infos[i][0]
    for i, (sy, q, real, n) in enumerate(infos):
        if not q and not real and n <= small:
            picked.add(i)
    return [hyps[i] for i in sorted(picked)]


_SYM_CACHE = {}
_Q_CACHE = {}


def array_symbols(e, cache=None):
    """names of the uninterpreted array-sorted constants (heap fields, ghost views) occurring in e"""
    k = e.get_id()
    if k in _SYM_CACHE:
        return _SYM_CACHE[k]
    r = _array_symbols(e)
    if len(_SYM_CACHE) > 200000:
        _SYM_CACHE.clear()
    _SYM_CACHE[k] = r
    return r


def _array_symbols(e):
    out, seen, stack = set(), set(), [e]
    while stack:
        x = stack.pop()
        i = x.get_id()
        if i in seen:
            continue
        seen.add(i)
        if z3.is_quantifier(x):
            stack.append(x.body())
            continue
        if z3.is_app(x):
            if x.num_args() == 0 and x.decl().kind() == z3.Z3_OP_UNINTERPRETED and z3.is_array(x):
                out.add(x.decl().name())
            stack.extend(x.children())
    return out


def serialize(ob):
    if isinstance(ob, SerialOb):
        return ob
    gid = ob.goal.get_id()
    if any(h.get_id() == gid for h in ob.hyps):
        so = SerialOb(ob.name, ob.kind, ob.func, ob.line, ob.note, "")
        so.trivial = True
        return so
    full = to_smt2(ob.hyps, ob.goal)
    import hashlib
    if _cache_has(hashlib.sha256(full.encode()).hexdigest()):
        # this exact query is recorded as proved: the sub-queries of the pipeline are not needed
        return SerialOb(ob.name, ob.kind, ob.func, ob.line, ob.note, full)
    quant = [has_quantifier(h) for h in ob.hyps]
    qf = [h for h, q in zip(ob.hyps, quant) if not q]
    t1 = None
    slices = []
    nq = sum(quant)
    if nq and not has_quantifier(ob.goal):
        t1 = to_smt2(qf, ob.goal)
    if nq >= 4:
        # relevance slices: quantifier-free hypotheses + the quantified ones that share a heap/ghost array with the goal
        # (level 1) or with level 1 (level 2).  Fewer hypotheses: unsat is still a proof.
        syms = [array_symbols(h) if q else None for h, q in zip(ob.hyps, quant)]
        cur = array_symbols(ob.goal)
        prev_n = -1
        # slice 0: the quantified hypotheses that speak only about heap fields / ghost views the goal itself mentions
        pick0 = [i for i, (q, sy) in enumerate(zip(quant, syms)) if q and sy <= cur]
        if pick0 and len(pick0) < nq:
            keep0 = set(pick0)
            slices.append(to_smt2([h for i, h in enumerate(ob.hyps) if (not quant[i]) or i in keep0], ob.goal))
            prev_n = len(pick0)
        # bounded expansion: repeatedly admit hypotheses that touch the current symbol set and introduce at most one new
        # array symbol (the "bridges" between a havocked view and its pre-state), then re-apply the subset rule
        allsyms = [array_symbols(h) for h in ob.hyps]
        cur2 = set(cur)
        seen_sizes = {len(pick0)}
        for rnd in range(3):
            grew = False
            for i, sy in enumerate(allsyms):
                if sy and (sy & cur2) and len(sy - cur2) == 1:
                    cur2 |= sy
                    grew = True
            pickx = [i for i, (q, sy) in enumerate(zip(quant, syms)) if q and sy <= cur2]
            if pickx and len(pickx) < nq and len(pickx) not in seen_sizes:
                seen_sizes.add(len(pickx))
                keepx = set(pickx)
                slices.append(to_smt2([h for i, h in enumerate(ob.hyps) if (not quant[i]) or i in keepx], ob.goal))
            if not grew:
                break
        for level in range(0):
            pick = [i for i, (q, sy) in enumerate(zip(quant, syms)) if q and (sy & cur)]
            if len(pick) == nq or len(pick) == prev_n:
                break
            prev_n = len(pick)
            keep = set(pick)
            hy = [h for i, h in enumerate(ob.hyps) if (not quant[i]) or i in keep]
            slices.append(to_smt2(hy, ob.goal))
            for i in pick:
                cur = cur | syms[i]
    coi = None
    if nq and len(ob.hyps) > 40:
        pk = _coi_pick(ob.hyps, ob.goal)
        if len(pk) < len(ob.hyps):
            coi = to_smt2(pk, ob.goal)
    return SerialOb(ob.name, ob.kind, ob.func, ob.line, ob.note, full, t1, slices, coi)


def serialize_cover(named):
    n, f = named
    if isinstance(f, str):
        return (n, f)
    if n.startswith("canary"):
        # vacuity canary: ALL hypotheses (quantified ones included) at the end of the function must not be refutable
        return (n, to_smt2(list(f), None))
    return (n, to_smt2([h for h in f if not has_quantifier(h)], None))


def has_quantifier(e):
    k = e.get_id()
    if k not in _Q_CACHE:
        if len(_Q_CACHE) > 200000:
            _Q_CACHE.clear()
        _Q_CACHE[k] = _has_quantifier(e)
    return _Q_CACHE[k]


def _has_quantifier(e):
    seen = set()
    stack = [e]
    while stack:
        x = stack.pop()
        if x.get_id() in seen:
            continue
        seen.add(x.get_id())
        if z3.is_quantifier(x):
            return True
        stack.extend(x.children())
    return False


def _solve_instantiated(smt2, timeout_ms):
    """own eager bounded quantifier instantiation (pyvc.instantiate): hypotheses are weakened to finitely many instances,
    so only `unsat` is conclusive"""
    try:
        import z3 as Z
        from . import instantiate as _inst
        s = Z.Solver()
        s.from_string(smt2)
        A = list(s.assertions())
        if len(A) < 2:
            return "unknown"
        forms = _inst.instantiate(A[:-1], Z.Not(A[-1]), rounds=3)
        if not forms:
            return "unknown"
        s2 = Z.Solver()
        for f in forms:
            s2.add(f)
        r, _, _, _ = _solve_cli(s2.to_smt2(), timeout_ms)
        return r
    except Exception:
        if os.environ.get("PYVC_DEBUG"):
            import traceback
            traceback.print_exc()
        return "unknown"


def _try_stage(ob, stage, timeout_ms, tac):
    """run one named stage; True iff it proves the obligation"""
    try:
        if stage == "qf" and ob.smt2_qf is not None:
            return _solve(ob.smt2_qf, timeout_ms, tac, False)[0] == "unsat"
        if stage.startswith("slice"):
            k, seed = (stage[5:].split(".") + ["0"])[:2]
            k = int(k)
            if k < len(ob.slices):
                return _solve(ob.slices[k], min(timeout_ms, 8000), tac, False, int(seed))[0] == "unsat"
        if stage == "inst":
            return _solve_instantiated(ob.smt2, min(timeout_ms, 20000)) == "unsat"
        if stage == "coi" and getattr(ob, "coi", None):
            return _solve_instantiated(ob.coi, 10000) == "unsat"
        if stage.startswith("full"):
            seed = int(stage[4:] or 0)
            return _solve(ob.smt2, timeout_ms, tac, False, seed)[0] == "unsat"
    except Exception:
        pass
    return False


def _pipeline(ob, timeout_ms, tac, retry_ms, use_cvc5, hint=None, hint_only=False):
    """one obligation, start to finish, inside a worker:  quantifier-free hypotheses -> relevance slices -> all
    hypotheses -> cvc5 -> retry.  `unsat` on a subset of the hypotheses is a proof; `sat` only counts on the full set."""
    t0 = time.time()
    if hint and _try_stage(ob, hint, timeout_ms, tac):
        return "proved", "z3+inst" if hint in ("inst", "coi") else "z3", time.time() - t0, None, "", hint
    if hint and hint_only:
        return "unknown", "z3", time.time() - t0, None, "$hint-stage-failed", ""
    r = _pipeline0(ob, timeout_ms, tac, retry_ms, use_cvc5)
    return r


def _pipeline0(ob, timeout_ms, tac, retry_ms, use_cvc5):
    t0 = time.time()
    model1 = None
    if ob.smt2_qf is not None:
        r, model1, _, _ = _solve(ob.smt2_qf, timeout_ms, tac, True)
        if r == "unsat":
            return "proved", "z3", time.time() - t0, None, "", "qf"
    if getattr(ob, "coi", None) and os.environ.get("PYVC_NO_INST") != "1":
        if _solve_instantiated(ob.coi, 8000) == "unsat":
            return "proved", "z3+inst", time.time() - t0, None, "", "coi"
    for k, sm in enumerate(ob.slices):
        for seed in (0, 1):
            r, _, _, _ = _solve(sm, min(timeout_ms, 4000), tac, False, seed)
            if r == "unsat":
                return "proved", "z3", time.time() - t0, None, "", "slice%d.%d" % (k, seed)
            if r == "sat":
                break
        if k == 0 and os.environ.get("PYVC_NO_INST") != "1":
            if _solve_instantiated(ob.smt2, min(timeout_ms, 15000)) == "unsat":
                return "proved", "z3+inst", time.time() - t0, None, "", "inst"
    if not ob.slices and ob.smt2_qf is not None and os.environ.get("PYVC_NO_INST") != "1":
        if _solve_instantiated(ob.smt2, min(timeout_ms, 15000)) == "unsat":
            return "proved", "z3+inst", time.time() - t0, None, "", "inst"
    # quantifier instantiation is sensitive to the search order: a small portfolio of seeds with short budgets is more
    # robust than one long run (a proof, when found, is found in milliseconds).  With a candidate counter-model from the
    # quantifier-free query the full query gets a short budget.
    budget = min(timeout_ms, 10000) if model1 is not None else timeout_ms
    plan = [(0, budget / 4.0), (1, budget / 4.0), (2, budget / 4.0), (3, budget / 4.0)] if (ob.smt2_qf is not None or ob.slices) else [(0, budget)]
    r, model, reason = "unknown", None, ""
    stage = ""
    for seed, tmo in plan:
        r, model, _, reason = _solve(ob.smt2, max(tmo, 1000), tac, True, seed)
        if r in ("sat", "unsat"):
            stage = "full%d" % seed
            break
    if model is None:
        model = model1
    backend = "z3"
    if r in ("unknown", "error") and use_cvc5 and model1 is None:
        r2, _, _, reason2 = _cvc5(ob.smt2, retry_ms or timeout_ms * 3)
        if r2 in ("sat", "unsat"):
            r, backend, reason = r2, "cvc5", reason2
    if r in ("unknown", "error") and retry_ms:
        r3, model3, _, _ = _solve(ob.smt2, retry_ms, None, True)
        if r3 in ("sat", "unsat"):
            r, model, backend = r3, model3, "z3-retry"
    status = {"unsat": "proved", "sat": "refuted"}.get(r, "unknown")
    dump = os.environ.get("PYVC_DUMP_UNKNOWN")
    if dump and status != "proved":
        try:
            os.makedirs(dump, exist_ok=True)
            with open(os.path.join(dump, re.sub(r"[^A-Za-z0-9_.-]+", "_", ob.name)[:150] + ".smt2"), "w") as f:
                f.write(ob.smt2)
        except Exception:
            pass
    if status == "unknown" and model1 is not None:
        # satisfiable without the quantified axioms, undecided with them: only a candidate counter-model - still undecided
        reason = "candidate model (quantified axioms not decided): " + str(reason)
    return status, backend, time.time() - t0, model, reason, stage if status == "proved" else ""


def _retry(ob, timeout_ms, seed):
    """second chance for an undecided obligation: the full query with a fresh seed and a long budget (only `unsat` counts)"""
    t0 = time.time()
    r, _, _, _ = _solve_cli(ob.smt2, timeout_ms, seed)
    if r != "unsat" and os.environ.get("PYVC_NO_INST") != "1" and seed % 2 == 1:
        r = _solve_instantiated(ob.smt2, timeout_ms)
    return r, time.time() - t0


CACHE_DIR = os.path.join(os.path.dirname(os.path.dirname(os.path.abspath(__file__))), ".work", "proved")


def _cache_key(ob):
    import hashlib
    return hashlib.sha256(ob.smt2.encode()).hexdigest()


PROOF_CACHE_FILE = os.path.join(os.path.dirname(os.path.dirname(os.path.abspath(__file__))), "proof_cache.txt")
_COMMITTED = None


def _committed():
    """proof_cache.txt (committed, never written by a check): sha256 of SMT-LIB queries that z3 answered `unsat`.  A check
    still generates every verification condition from /repo's current source; a condition whose exact text is recorded is not
    sent to the solver again (quick tier only - the thorough tier solves everything).  Changed code => changed text => solved."""
    global _COMMITTED
    if _COMMITTED is None:
        try:
            with open(PROOF_CACHE_FILE) as f:
                _COMMITTED = set(l.strip() for l in f if l.strip() and not l.startswith("#"))
        except OSError:
            _COMMITTED = set()
    return _COMMITTED


def _cache_has(key):
    if os.environ.get("PYVC_NO_CACHE") == "1":
        return False
    return key in _committed() or os.path.exists(os.path.join(CACHE_DIR, key[:2], key))


def _cache_put(key):
    if os.environ.get("PYVC_NO_CACHE") == "1":
        return
    try:
        d = os.path.join(CACHE_DIR, key[:2])
        os.makedirs(d, exist_ok=True)
        open(os.path.join(d, key), "w").close()
    except OSError:
        pass


def discharge(obligations, timeout_ms=20000, tactic=None, retry_ms=None, use_cvc5=True, per_ob_tactic=None):
    """obligations: list of symexec.Obligation.  Returns list of Result (status: proved | refuted | unknown).
    Memoisation: the verdict `unsat` of a query is a function of its SMT-LIB text; a query (generated from /repo's current
    source in THIS run) whose exact text was already refuted-negation-proved by an earlier check of the same session is not
    solved again (several properties share the contracts of the same functions).  Only `proved` is ever memoised."""
    ex = pool()
    obligations = [serialize(ob) for ob in obligations]
    futs = []
    hints = load_hints()
    keys = [_cache_key(ob) for ob in obligations]
    for ob, key in zip(obligations, keys):
        if getattr(ob, "trivial", False):
            futs.append("trivial")
            continue
        if _cache_has(key):
            futs.append(None)
            continue
        tac = per_ob_tactic(ob) if per_ob_tactic else tactic
        # an obligation that has a recorded proof stage is first tried at that stage only
        futs.append(ex.submit(_pipeline, ob, timeout_ms, tac, retry_ms, use_cvc5, hints.get(hint_key(ob)), True))
    results = []
    for ob, fu, key in zip(obligations, futs, keys):
        if fu == "trivial":
            results.append(Result(ob.name, "proved", "syntactic (the goal is one of the hypotheses)", 0.0, None, "", ob, ""))
            continue
        if fu is None:
            results.append(Result(ob.name, "proved", "z3 (memoised identical query)", 0.0, None, "", ob, ""))
            continue
        status, backend, t, model, reason, stage = fu.result()
        if status == "proved":
            _cache_put(key)
        results.append(Result(ob.name, status, backend, t, model, reason, ob, stage))
    # obligations whose recorded stage no longer proves them get the whole pipeline - but when there are many of them (a
    # change that breaks a contract breaks many clauses at once) only the first FULL_BUDGET do; the rest stay undecided
    # with that reason (on the unchanged tree none is in this situation; undecided never counts as held)
    failed_hint = [i for i, r in enumerate(results) if r.status == "unknown" and r.reason == "$hint-stage-failed"]
    budget = int(os.environ.get("PYVC_FULL_BUDGET", "32"))
    jobs2 = []
    for n_, i in enumerate(failed_hint):
        if n_ < budget:
            tac = per_ob_tactic(obligations[i]) if per_ob_tactic else tactic
            jobs2.append((i, ex.submit(_pipeline0, obligations[i], timeout_ms, tac, retry_ms, use_cvc5)))
        else:
            o = results[i]
            results[i] = Result(o.name, "unknown", o.backend, o.time, None,
                                "recorded proof stage failed; not retried (more than %d such obligations in this run)" % budget,
                                o.ob, "")
    for i, fu in jobs2:
        status, backend, t, model, reason, stage = fu.result()
        if status == "proved":
            _cache_put(keys[i])
        o = results[i]
        results[i] = Result(o.name, status, backend, o.time + t, model, reason, o.ob, stage)
    # second phase: undecided obligations get a portfolio of long runs with other seeds (quantifier instantiation is
    # sensitive to the search order and to machine load; a proof, when it exists, is usually found quickly by some seed)
    und = [i for i, r in enumerate(results) if r.status == "unknown" and "not retried" not in (r.reason or "")][:12]
    if und and os.environ.get("PYVC_NO_RETRY") != "1":
        quick = os.environ.get("PYVC_TIER", "quick") == "quick"
        long_ms = max(3 * timeout_ms, 90000) if quick else max(4 * timeout_ms, 120000)
        seeds = (11, 12) if quick else (11, 12, 13, 14)
        jobs = [(i, ex.submit(_retry, obligations[i], long_ms, seed)) for i in und[:40] for seed in seeds]
        for i, fu in jobs:
            try:
                r, t = fu.result()
            except Exception:
                continue
            if r == "unsat" and results[i].status != "proved":
                o = results[i]
                results[i] = Result(o.name, "proved", "z3-retry", o.time + t, None, "", o.ob, "")
                _cache_put(keys[i])
    return results


def check_sat(named_formulas, timeout_ms=10000):
    """vacuity guards: every formula list must be satisfiable.  returns list of (name, 'sat'|'unsat'|'unknown')"""
    ex = pool()
    named_formulas = [serialize_cover(c) for c in named_formulas]
    futs = [(n, ex.submit(_solve, f, 20000 if n.startswith("canary") else timeout_ms, None, False)) for n, f in named_formulas]
    return [(n, fu.result()[0]) for n, fu in futs]


def run_tasks(tasks):
    """tasks: list of (module, function, args) executed in the worker pool; results must be picklable"""
    ex = pool()
    futs = [ex.submit(_call, m, f, a) for (m, f, a) in tasks]
    return [fu.result() for fu in futs]


def _call(mod, fn, args):
    import importlib, os, sys
    here = os.path.dirname(os.path.dirname(os.path.abspath(__file__)))
    if here not in sys.path:
        sys.path.insert(0, here)
    m = importlib.import_module(mod)
    return getattr(m, fn)(*args)
