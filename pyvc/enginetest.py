"""Regression suite of the verifier itself (run by setup_cmd and by every check of the method group in the thorough tier):
synthetic good / bad twins under one contract each.  good -> every obligation proved; bad -> at least one not proved.
Each pair pins one engine feature in which an unsoundness was found at some point (frame of list length, exception of
unknown class vs. a narrower handler, None arguments at call sites, ...)."""
import os, sys

HERE = os.path.dirname(os.path.dirname(os.path.abspath(__file__)))
ROOT = os.path.join(HERE, "enginetests", "repo")
F = "iOpt/mini.py"
SCHEMA = {"items": "vec:real", "count": "int", "total": "real", "other": "ref:Box?"}


def cases():
    from pyvc.symexec import Contract, LoopSpec
    risky = Contract(F, "Helper.risky", params={"b": "ref:Box"}, result="real", modifies=[], allocates=False,
                     ensures=["result >= 1"], raises={"$any": []}, doc="interface contract: may raise anything")
    inv_loop = LoopSpec(invariant=["0 <= i and i <= n", "vlen(b.items) == old(vlen(b.items)) + i", "b.count == old(b.count)"],
                        modifies=["elems(b.items)", "len_(b.items)"], variant="n - i")
    out = []

    def pair(stem, con_kwargs, callees=(), loops=None):
        for v in ("good", "bad"):
            q = "%s_%s" % (stem, v)
            ls = {(F, q, 0): loops} if loops is not None else {}
            out.append((stem, v, Contract(F, q, **con_kwargs), list(callees), ls))
    pair("push", dict(params={"b": "ref:Box", "v": "real"}, result="none",
                      modifies=["elems(b.items)", "len_(b.items)", "b.count"], requires=["b.items is not None"],
                      ensures=["vlen(b.items) == old(vlen(b.items)) + 1", "b.count == old(b.count) + 1"]))
    pair("frame", dict(params={"b": "ref:Box", "c": "ref:Box"}, result="none", modifies=["b.count"], ensures=["b.count == 5"]))
    pair("swallow", dict(params={"h": "ref:Helper", "b": "ref:Box"}, result="bool", modifies=["b.total"],
                         ensures=["b.total >= 1"], raises={"$any": ["b.total == old(b.total)"]}), callees=[risky])
    pair("loop", dict(params={"b": "ref:Box", "n": "int"}, result="none",
                      modifies=["elems(b.items)", "len_(b.items)", "b.count"], requires=["n >= 0", "b.items is not None"],
                      ensures=["vlen(b.items) == old(vlen(b.items)) + n", "b.count == old(b.count) + n"]), loops=inv_loop)
    pair("deref", dict(params={"b": "ref:Box"}, result="int", modifies=[], ensures=[]))
    pair("index", dict(params={"b": "ref:Box", "k": "int"}, result="real", modifies=[], requires=["b.items is not None"], ensures=[]))
    pair("callee_pre", dict(params={"h": "ref:Helper", "b": "ref:Box?"}, result="real", modifies=[], ensures=[],
                            raises={"$any": []}), callees=[risky])
    pair("branch", dict(params={"x": "real"}, result="real", modifies=[], ensures=["result >= 0", "result == x or result == -x"]))
    return out


def run(verbose=False):
    os.environ["PYVC_NO_CACHE"] = "1"
    from pyvc.frontend import Repo
    from pyvc import verify
    repo = Repo(ROOT)
    bad = []
    n = 0
    for stem, v, con, callees, loops in cases():
        from contracts import search_data as csd
        schema = dict(csd.SCHEMA)
        schema.update(SCHEMA)
        rep = verify.verify(repo, con, schema, callees, loops, csd.SPEC_FUNCS, inline=set(), safety=True, timeout_ms=10000, canary=True)
        res = rep.results or []
        n += len(res)
        allp = rep.error is None and bool(res) and all(r.status == "proved" for r in res)
        vac = [c for c in rep.covers if c[1] == "unsat"]
        if verbose:
            print(stem, v, "error" if rep.error else "", [(r.name.split(":")[1], r.status) for r in res if r.status != "proved"][:4], vac)
        if vac and v == "good":
            bad.append("%s_%s: vacuous hypotheses %s" % (stem, v, vac))
        if v == "good" and not allp:
            bad.append("%s_good is not verified (%s)" % (stem, rep.error or [r.name for r in res if r.status != "proved"][:3]))
        if v == "bad" and allp:
            bad.append("%s_bad is ACCEPTED: the engine is unsound for this feature" % stem)
    return n, bad


def main():
    n, bad = run(verbose="-v" in sys.argv)
    if bad:
        for b in bad:
            print("ENGINE SELF-TEST FAILED:", b, file=sys.stderr)
        return 3
    print("pyvc engine self-test ok: %d obligations over %d good/bad twins" % (n, len(cases())))
    from pyvc import discharge
    discharge.shutdown()
    return 0


if __name__ == "__main__":
    code = main()
    sys.stdout.flush()
    os._exit(code)
