"""./check <property id> --tier quick|thorough [--replay file]"""
import sys, os, json, argparse, importlib, traceback


def main():
    ap = argparse.ArgumentParser()
    ap.add_argument("pid")
    ap.add_argument("--tier", default=os.environ.get("VERIF_TIER", "quick"), choices=["quick", "thorough"])
    ap.add_argument("--replay", default=None)
    ap.add_argument("--update-baseline", action="store_true")
    a = ap.parse_args()
    seed = int(os.environ.get("VERIF_SEED", "0") or 0)
    if a.update_baseline:
        os.environ["PYVC_UPDATE_BASELINE"] = "1"
    if a.tier == "thorough" and "PYVC_NO_CACHE" not in os.environ:
        os.environ["PYVC_NO_CACHE"] = "1"          # thorough: every verification condition goes to the solver
    os.environ["PYVC_TIER"] = a.tier
    pid = a.pid.upper()
    try:
        mod = importlib.import_module("props.%s" % pid.lower())
    except ImportError as e:
        print("no check registered for %s (%s)" % (pid, e), file=sys.stderr)
        return 3
    from pyvc import discharge
    try:
        if a.replay:
            return mod.replay(a.replay)
        return mod.run(a.tier, seed)
    except Exception:
        traceback.print_exc()
        print("ENGINE ERROR in check %s" % pid, file=sys.stderr)
        return 3
    finally:
        discharge.shutdown()


if __name__ == "__main__":
    code = main()
    sys.stdout.flush()
    sys.stderr.flush()
    os._exit(code if isinstance(code, int) else 0)     # do not wait for the solver pool's helper threads
