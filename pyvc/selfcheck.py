"""setup_cmd: verify that the tooling the checks need is present (offline) and that the verifier can refute `False`."""
import sys, os, subprocess


def main():
    import z3
    assert z3.get_version_string().startswith("5."), z3.get_version_string()
    s = z3.Solver()
    x = z3.Real("x")
    s.add(x * x < 0)
    assert s.check() == z3.unsat
    s = z3.Solver()
    s.add(x > 1)
    assert s.check() == z3.sat           # canary: `False` is not provable
    from pyvc.frontend import Repo
    r = Repo()
    assert "iOpt/evolvent/evolvent.py" in r.modules
    p = subprocess.run(["/venv/bin/python", "-c", "import numpy, scipy, depq, iOpt; print(numpy.__version__)"],
                       capture_output=True, text=True, env=dict(os.environ, PYTHONPATH="/repo"))
    assert p.returncode == 0, p.stderr
    assert os.path.exists("/usr/bin/cvc5")
    print("pyvc selfcheck ok: z3", z3.get_version_string(), "numpy", p.stdout.strip())
    return 0


if __name__ == "__main__":
    sys.exit(main())
