"""Executor state: local environment, symbolic heap (one z3 array per attribute name), path condition."""
import z3
from .sym import *

ElemR = z3.ArraySort(IntS, z3.ArraySort(IntS, RealS))
ElemI = z3.ArraySort(IntS, z3.ArraySort(IntS, IntS))


class State:
    __slots__ = ("env", "heap", "pc", "abase", "nalloc", "tag", "conds")

    def __init__(self, env=None, heap=None, pc=None, abase=None, nalloc=0, tag="", conds=None):
        self.conds = conds if conds is not None else set()   # ids of the pc entries that are branch conditions
        self.env = env if env is not None else {}
        self.heap = heap if heap is not None else {}
        self.pc = pc if pc is not None else []
        self.abase = abase
        self.nalloc = nalloc
        self.tag = tag

    def fork(self):
        return State(dict(self.env), dict(self.heap), list(self.pc), self.abase, self.nalloc, self.tag, set(self.conds))

    def add_cond(self, c):
        """append a branch condition (as opposed to an assumed fact): merge selectors are built from these"""
        c = to_z3(c, BoolS)
        self.pc.append(c)
        self.conds.add(c.get_id())

    def assume(self, c):
        if c is True or (is_z3(c) and z3.is_true(c)):
            return
        self.pc.append(to_z3(c, BoolS))

    def pc_expr(self):
        return zand(*self.pc)


def _same(a, b):
    if a is b:
        return True
    if is_z3(a) and is_z3(b):
        return a.eq(b)
    if isinstance(a, Ref) and isinstance(b, Ref):
        return a.e.eq(b.e) and a.cls == b.cls
    if isinstance(a, ArrVal) and isinstance(b, ArrVal):
        return a.arr.eq(b.arr)
    if isinstance(a, (int, Fraction, bool, str)) and isinstance(b, (int, Fraction, bool, str)):
        return type(a) == type(b) and a == b
    if a is None and b is None:
        return True
    if isinstance(a, Tuple_) and isinstance(b, Tuple_) and len(a.items) == len(b.items):
        return all(_same(x, y) for x, y in zip(a.items, b.items))
    return False


def merge_value(sel, a, b):
    """value = a if sel else b"""
    if _same(a, b):
        return a
    if isinstance(a, Poison):
        return a
    if isinstance(b, Poison):
        return b
    if isinstance(a, Ref) or isinstance(b, Ref):
        if (a is None or isinstance(a, Ref)) and (b is None or isinstance(b, Ref)):
            ea = a.e if a is not None else z3.IntVal(0)
            eb = b.e if b is not None else z3.IntVal(0)
            cls = (a.cls if a is not None else None) or (b.cls if b is not None else None)
            return Ref(z3.If(sel, ea, eb), cls)
        return Poison("merge of reference and non-reference")
    if isinstance(a, ArrVal) and isinstance(b, ArrVal) and a.arr.sort() == b.arr.sort():
        return ArrVal(z3.If(sel, a.arr, b.arr), a.elem)
    if isinstance(a, Tuple_) and isinstance(b, Tuple_) and len(a.items) == len(b.items):
        return Tuple_([merge_value(sel, x, y) for x, y in zip(a.items, b.items)])
    if isinstance(a, bool) or isinstance(b, bool) or (is_z3(a) and z3.is_bool(a)) or (is_z3(b) and z3.is_bool(b)):
        try:
            return z3.If(sel, to_z3(a, BoolS), to_z3(b, BoolS))
        except Unsupported:
            return Poison("merge bool/non-bool")
    if (is_num(a) or a is None) and (is_num(b) or b is None):
        if a is None or b is None:
            return Poison("merge of None and number")
        s = num_sort(a, b)
        return z3.If(sel, to_z3(a, s), to_z3(b, s))
    if isinstance(a, str) and isinstance(b, str):
        return z3.If(sel, to_z3(a), to_z3(b))
    return Poison("cannot merge %r / %r" % (type(a).__name__, type(b).__name__))


def _has_quant(e):
    seen, stack = set(), [e]
    while stack:
        x = stack.pop()
        i = x.get_id()
        if i in seen:
            continue
        seen.add(i)
        if z3.is_quantifier(x):
            return True
        stack.extend(x.children())
    return False


def _exclusive(deltas):
    ds = [z3.simplify(to_z3(d, BoolS)) for d in deltas]
    for i in range(len(ds)):
        for j in range(i):
            if z3.is_false(z3.simplify(z3.And(ds[i], ds[j]))):
                continue
            s = z3.Solver()
            s.set("timeout", 300)
            s.add(ds[i], ds[j])
            if s.check() != z3.unsat:
                return False
    return True


def merge_states(parent_len, states):
    """n-way merge of sibling states that share the first parent_len path-condition conjuncts.
    Branch selectors are the conjunctions of the BRANCH CONDITIONS in each branch's suffix (State.add_cond: if-tests,
    loop guards, fresh exception discriminators - mutually exclusive between siblings by construction); facts assumed
    inside a branch (callee post-conditions, heap well-formedness) are kept at top level, guarded by their branch
    selector, instead of being buried in a disjunction.  For exclusive selectors this is equivalent to the
    disjunction of the branch path conditions."""
    if len(states) == 1:
        return states[0]
    out = states[-1].fork()
    deltas, facts = [], []
    for s in states:
        suf = s.pc[parent_len:]
        isc = [c.get_id() in s.conds for c in suf]
        d = zand(*[c for c, qq in zip(suf, isc) if qq])
        deltas.append(d)
        for c, qq in zip(suf, isc):
            if not qq:
                facts.append(z3.Implies(d, c) if not z3.is_true(z3.simplify(d)) else c)
    if not _exclusive(deltas):
        # selectors not provably exclusive: exact fall-back (disjunction of the complete branch path conditions)
        deltas = [zand(*s.pc[parent_len:]) for s in states]
        facts = []
    for s, d in list(zip(states, deltas))[-2::-1]:
        env = {}
        for k in set(out.env) | set(s.env):
            if k in out.env and k in s.env:
                env[k] = merge_value(d, s.env[k], out.env[k])
            else:
                env[k] = Poison("variable '%s' defined on one branch only" % k)
        heap = {}
        for k in set(out.heap) | set(s.heap):
            ha, hb = s.heap.get(k), out.heap.get(k)
            if ha is None or hb is None:
                # array first touched on one branch only: the other branch still has the initial array
                some = ha if ha is not None else hb
                init = z3.Const("H0_" + out.tag + k, some.sort())
                ha = ha if ha is not None else init
                hb = hb if hb is not None else init
            if ha.eq(hb):
                heap[k] = ha
            else:
                heap[k] = z3.If(d, ha, hb)
        out.env, out.heap = env, heap
        if not (s.abase is out.abase or s.abase.eq(out.abase)):
            out.abase = z3.If(d, s.abase, out.abase)
        out.nalloc = max(out.nalloc, s.nalloc)
    common = states[0].pc[:parent_len]
    out.pc = common + ([zor(*deltas)] if not z3.is_true(z3.simplify(zor(*deltas))) else []) + facts
    return out
