"""Library-surface obligations (DESIGN 2.2): attributes of external libraries used by the verified functions must
exist in the installation iOpt runs with.  Discharged by importing them under /venv/bin/python."""
import time
from . import runner

SKIP_MODULES = {"typing", "abc", "enum"}


def check_surface(chk, surface):
    """surface: set of (module, attr, file, line).  Adds one obligation per distinct (module, attr) to chk."""
    items = sorted(set((m, a) for (m, a, f, l) in surface if m.split(".")[0] not in SKIP_MODULES))
    if not items:
        return
    where = {}
    for (m, a, f, l) in surface:
        where.setdefault((m, a), []).append("%s:%s" % (f, l))
    t0 = time.time()
    res = runner.native("native/surface_check.py", {"items": [list(i) for i in items]})
    dt = (time.time() - t0) / max(1, len(items))
    missing = {(m, a): e for m, a, e in res["missing"]}
    for (m, a) in items:
        name = "library-surface:%s.%s" % (m, a)
        if (m, a) in missing:
            chk.items.append(dict(key=name, name=name, func=",".join(sorted(set(where[(m, a)]))), kind="library-surface",
                                  clause="%s.%s exists in the installed library" % (m, a), status="refuted",
                                  backend="native-import", time=round(dt, 3),
                                  model={"module": m, "attr": a, "error": missing[(m, a)], "used_at": where[(m, a)]},
                                  reason=missing[(m, a)]))
        else:
            chk.items.append(dict(key=name, name=name, func=",".join(sorted(set(where[(m, a)]))), kind="library-surface",
                                  clause="%s.%s exists in the installed library" % (m, a), status="proved",
                                  backend="native-import", time=round(dt, 3), model=None, reason=""))
