"""Symbolic executor for the Python subset of DESIGN.md section 2.3, with state merging, contracts at call
sites, loop invariants, frame checking and eager emission of verification conditions."""
import ast, itertools
import z3
from .sym import *
from .state import State, merge_states, merge_value, ElemR, ElemI
from .frontend import mangle, strip_doc, loops_of

EXC_PARENTS = {
    "BaseException": None, "Exception": "BaseException", "KeyboardInterrupt": "BaseException",
    "SystemExit": "BaseException", "GeneratorExit": "BaseException",
    "RuntimeError": "Exception", "TypeError": "Exception", "ValueError": "Exception", "IndexError": "LookupError",
    "LookupError": "Exception", "KeyError": "LookupError", "AttributeError": "Exception",
    "ZeroDivisionError": "ArithmeticError", "ArithmeticError": "Exception", "StopIteration": "Exception",
    "AssertionError": "Exception", "NotImplementedError": "RuntimeError", "OverflowError": "ArithmeticError",
    "MemoryError": "Exception", "RecursionError": "RuntimeError",
}


def exc_is_subclass(c, parent):
    while c is not None:
        if c == parent:
            return True
        c = EXC_PARENTS.get(c, "Exception" if c not in EXC_PARENTS else None)
    return False


class Obligation:
    __slots__ = ("name", "kind", "func", "line", "hyps", "goal", "note", "state")

    def __init__(self, name, kind, func, line, hyps, goal, note="", state=None):
        self.name, self.kind, self.func, self.line = name, kind, func, line
        self.hyps, self.goal, self.note = hyps, goal, note
        self.state = state


class LoopSpec:
    """Sidecar loop contract.  invariant: list of spec clause strings (or callables (engine,state)->z3 Bool);
    modifies: heap targets written by the body; variant: spec expression (Int) or None; ghost_*: statements."""

    def __init__(self, invariant=(), modifies=(), variant=None, ghost_before=(), ghost_body_start=(),
                 ghost_body_end=(), unroll=False, chain=False):
        self.chain = chain           # prove the invariant clauses in order, earlier ones usable as lemmas
        self.invariant, self.modifies, self.variant = list(invariant), list(modifies), variant
        self.ghost_before, self.ghost_body_start, self.ghost_body_end = ghost_before, ghost_body_start, ghost_body_end
        self.unroll = unroll


class Contract:
    """Sidecar function contract (see DESIGN.md 2.9).  All clauses are Python expression strings evaluated by the
    executor's own expression evaluator (so and/or/not mean the same thing to prover and replay)."""

    def __init__(self, file, qual, params=None, result=None, requires=(), ensures=(), modifies=(), raises=None,
                 setup=(), reads=None, pure=False, allocates=True, doc="", ghost_results=None, cases=None,
                 ghost_exit=(), chain=False, assumed_ensures=(), ghost_after=None):
        self.file, self.qual = file, qual
        self.params = params or {}
        self.result = result
        self.requires, self.ensures, self.modifies = list(requires), list(ensures), list(modifies)
        self.raises = raises or {}
        self.setup = list(setup)
        self.reads = reads
        self.pure = pure
        self.allocates = allocates
        self.doc = doc
        self.ghost_results = ghost_results or {}
        self.cases = cases          # optional list of spec clauses: exhaustive case split of the pre-state
        self.ghost_exit = list(ghost_exit)   # ghost statements run at every normal exit (may only assign ghost state)
        self.chain = chain                   # prove the ensures clauses in order, earlier ones usable as lemmas
        # clauses ASSUMED at call sites but not proved for the body (reported as assumptions, e.g. no float overflow)
        self.assumed_ensures = list(assumed_ensures)
        # ghost statements (lemma hints: `assert e`) run after the first top-level statement of the function whose source
        # text contains the key:  {"GetDataItemWithMaxGlobalR": ["assert ...", ...]}
        self.ghost_after = dict(ghost_after or {})

    @property
    def cls(self):
        return self.qual.split(".")[0] if "." in self.qual else None

    @property
    def name(self):
        return self.qual.split(".")[-1]


class Outcome:
    NORMAL, RETURN, RAISE, BREAK, CONTINUE = "normal", "return", "raise", "break", "continue"


class Engine:
    def __init__(self, repo, schema=None, contracts=None, loop_specs=None, inline=None, spec_funcs=None,
                 safety=False, prefix="", builtin_overrides=None, surface=None):
        self.repo = repo
        self.schema = schema or {}
        self.contracts = contracts or {}        # (class or None, name) -> Contract
        self.loop_specs = loop_specs or {}      # (file, qual, ordinal) -> LoopSpec
        self.inline = inline                    # None: inline everything without contract; else set of (cls,name)
        self.spec_funcs = spec_funcs or {}
        self.safety = safety
        self.prefix = prefix
        self.builtin_overrides = builtin_overrides or {}
        self.obligations = []
        self.covers = []                        # (name, formula) that must be SAT (vacuity guards)
        self.axioms = list(INF_AXIOMS)
        self.alloc0 = z3.Int(prefix + "alloc0")
        self.axioms.append(self.alloc0 >= 1)
        self.fresh_ctr = itertools.count()
        self.frames = []                        # stack of frame descriptors
        self.cur_func = "?"
        self.cur_file = "?"
        self.cur_class = None
        self.call_depth = 0
        self.surface = surface if surface is not None else set()   # library attributes touched: ("numpy","inf")
        self.trace_calls = []                   # ghost trace of call sites (callee qual, line)
        self.ref_axiom_fields = set()
        self.spec_mode = 0
        self.old_state = None
        self.loop_records = {}
        self.init_ref_arrays = {}
        self.init_len = None
        self.init_len_ids = set()
        self.inst_done = set()
        self.entry_abase = None
        self.stdout = []                        # ghost stdout: (pc, template)
        self.external_classes = {"depq.DEPQ": "DEPQ"}
        self.elem_family = {}
        self._heap_fact_ids = set()

    # ------------------------------------------------------------------ helpers
    def fresh(self, base, sort):
        return z3.Const("%s%s!%d" % (self.prefix, base, next(self.fresh_ctr)), sort)

    def unsupported(self, msg, node=None):
        raise Unsupported(msg, node, self.cur_file)

    def oblige(self, state, goal, kind, node=None, note="", extra_hyps=()):
        goal = to_z3(goal, BoolS)
        line = getattr(node, "lineno", 0) if node is not None else 0
        name = "%s:%s:L%s#%d" % (self.cur_func, kind, line, len(self.obligations))
        self.obligations.append(Obligation(name, kind, self.cur_func, line, list(self.axioms) + list(state.pc) +
                                           list(extra_hyps), goal, note))

    def new_state(self):
        st = State(abase=self.alloc0, tag=self.prefix)
        return st

    # ------------------------------------------------------------------ heap
    def field_type(self, name, cls=None):
        if cls is not None and (cls, name) in self.schema:
            return self.schema[(cls, name)]
        return self.schema.get(name)

    def sort_of_type(self, t):
        if t in ("int", "str", "any") or t is None:
            return IntS
        if t == "real":
            return RealS
        if t == "bool":
            return BoolS
        if t.startswith(("seq:", "map:")):
            return z3.ArraySort(IntS, self.sort_of_type(self.arr_elem(t)))
        return IntS     # ref:, vec:, list:

    @staticmethod
    def arr_elem(t):
        """element type of a ghost sequence/map type 'seq:<T>' / 'map:<T>'"""
        inner = t[4:]
        return inner if inner in ("real", "int", "bool") else "ref:" + inner

    def harr(self, state, name, sort=None):
        a = state.heap.get(name)
        if a is None:
            if sort is None:
                t = self.field_type(name)
                if t is None:
                    self.unsupported("field '%s' has no declared sort in the sidecar schema" % name)
                sort = self.sort_of_type(t)
            a = z3.Array("H0_" + self.prefix + name, IntS, sort)
            state.heap[name] = a
            t = self.field_type(name)
            if t and (t.startswith("ref:") or t.startswith("vec:") or t.startswith("list:")):
                # well-formedness of the initial heap: references stored in pre-existing objects are pre-existing.
                # Instantiated on demand for every select on the initial array (see instantiate_heap_axioms).
                self.init_ref_arrays[a.get_id()] = a
        return a

    def instantiate_heap_axioms(self, e):
        """ground instances of  forall o: 0 <= H0_f[o] < alloc0  (ref fields)  and  forall o: H0_len[o] >= 0"""
        if not is_z3(e):
            return
        stack, seen = [e], set()
        while stack:
            x = stack.pop()
            i = x.get_id()
            if i in seen:
                continue
            seen.add(i)
            if z3.is_select(x):
                base = x.arg(0)
                bid = base.get_id()
                if bid in self.init_ref_arrays and i not in self.inst_done:
                    self.inst_done.add(i)
                    # only objects that existed at entry have initialised fields
                    self.axioms.append(z3.Implies(x.arg(1) < self.alloc0, z3.And(x >= 0, x < self.alloc0)))
                elif bid in self.init_len_ids and i not in self.inst_done:
                    self.inst_done.add(i)
                    self.axioms.append(x >= 0)
            stack.extend(x.children())

    def wrap(self, e, t):
        if t is None:
            return e
        if t.startswith("ref:"):
            return Ref(to_z3(e, IntS), t[4:])
        if t.startswith("vec:") or t.startswith("list:") or t == "tuple":
            return Ref(to_z3(e, IntS), t)
        if t.startswith(("seq:", "map:")):
            return e if isinstance(e, ArrVal) else ArrVal(e, self.arr_elem(t))
        return e

    def load(self, state, ref, name, node=None):
        if not isinstance(ref, Ref):
            self.unsupported("attribute '%s' of non-object %r" % (name, ref), node)
        t = self.field_type(name, ref.cls)
        arr = self.harr(state, name)
        if self.safety:
            self.oblige(state, ref.e != 0, "nonnull", node, "dereference .%s" % name)
        e = simp(self.sel(arr, ref.e))
        self.instantiate_heap_axioms(e)
        if t and t.startswith(("ref:", "vec:", "list:")) and not z3.is_int_value(e) and self.quant_depth == 0:
            # heap well-formedness (Python has no dangling or future references): a stored reference denotes None
            # or an object that has already been allocated.  (Not recorded for loads under a spec quantifier: the
            # loaded term mentions the bound variable.)
            self.heap_fact(z3.And(e >= 0, e < state.abase + state.nalloc))
        return self.wrap(self.norm(e), t)

    @staticmethod
    def sel(arr, idx):
        """select with if-then-else over arrays pushed inside (merged heaps are ite(c, A, B)): reads then mention the base
        arrays A, B directly, which is the form the quantifier triggers are written in"""
        if z3.is_app_of(arr, z3.Z3_OP_ITE):
            return z3.If(arr.arg(0), Engine.sel(arr.arg(1), idx), Engine.sel(arr.arg(2), idx))
        return z3.Select(arr, idx)

    def heap_fact(self, f):
        """heap well-formedness facts about a loaded term are unconditional (they do not depend on the branch or the
        short-circuit guard under which the load happens): kept with the axioms instead of the path condition, so that
        they are not wrapped into every enclosing guard"""
        f = simp(f)
        k = f.get_id()
        if k not in self._heap_fact_ids:
            self._heap_fact_ids.add(k)
            self.axioms.append(f)

    @staticmethod
    def norm(e):
        """z3 numerals / boolean literals become python values (keeps range() bounds and indices concrete)"""
        if is_z3(e):
            if z3.is_int_value(e):
                return e.as_long()
            if z3.is_rational_value(e):
                return Fraction(e.numerator_as_long(), e.denominator_as_long())
            if z3.is_true(e):
                return True
            if z3.is_false(e):
                return False
        return e

    def store(self, state, ref, name, val, node=None, ghost=False):
        if not isinstance(ref, Ref):
            self.unsupported("store to attribute of non-object", node)
        t = self.field_type(name, ref.cls)
        if t is None:
            # first store defines the sort
            if isinstance(val, Ref) or val is None:
                t = ("ref:" + (val.cls or "?")) if isinstance(val, Ref) and not (val.cls or "").startswith(("vec:", "list:")) else (val.cls if isinstance(val, Ref) else "ref:?")
            elif isinstance(val, bool) or (is_z3(val) and z3.is_bool(val)):
                t = "bool"
            elif isinstance(val, int) or (is_z3(val) and z3.is_int(val)):
                t = "int"
            elif isinstance(val, str):
                t = "str"
            else:
                t = "real"
            self.schema[name] = t
        sort = self.sort_of_type(t)
        arr = self.harr(state, name, sort)
        if self.safety:
            self.oblige(state, ref.e != 0, "nonnull", node, "store .%s" % name)
        if not ghost:
            self.check_frame(state, ("field", ref.e, name), node)
        try:
            zv = to_z3(val, sort)
        except Unsupported:
            self.unsupported("value %r stored into field '%s' of declared type %s" % (val, name, t), node)
        state.heap[name] = z3.Store(arr, ref.e, zv)

    def elem_heap(self, state, kind):
        key = "$elemR" if kind == "vec:real" else "$elemI"
        a = state.heap.get(key)
        if a is None:
            a = z3.Const("H0_" + self.prefix + key, ElemR if key == "$elemR" else ElemI)
            state.heap[key] = a
            if key == "$elemI":
                self.init_elemI = a
        return key, a

    def len_key(self, ref=None, fam=None):
        """lengths are kept per element family: a vector of floats and a list of references are never the same object"""
        if fam is None:
            fam = self.seq_family(ref)
        return "$lenR" if fam in ("vec:real", "$elemR") else "$lenI"

    def len_heap(self, state, key="$lenI"):
        a = state.heap.get(key)
        if a is None:
            a = z3.Array("H0_" + self.prefix + key, IntS, IntS)
            state.heap[key] = a
            self.init_len = a
            self.init_len_ids.add(a.get_id())
        return a

    def elem_type(self, ref):
        k = ref.cls or ""
        if k == "vec:real":
            return "real"
        if k == "vec:int":
            return "int"
        if k.startswith("list:"):
            inner = k[5:]
            if inner in ("real",):
                return "real"
            if inner in ("int", "?", "any", ""):
                return "int"
            if inner.startswith(("vec:", "list:")):
                return inner
            return "ref:" + inner
        self.unsupported("subscript of non-sequence %r" % (ref,))

    def seq_family(self, ref):
        return "vec:real" if self.elem_type(ref) == "real" else "vec:int"

    def vec_len(self, state, ref):
        e = simp(self.sel(self.len_heap(state, self.len_key(ref)), ref.e))
        self.instantiate_heap_axioms(e)
        return self.norm(e)

    def norm_index(self, state, ref, idx):
        c = concrete(idx)
        if c is not None and c < 0:
            return self.vec_len(state, ref) + c
        return idx

    def vec_get(self, state, ref, idx, node=None):
        idx = self.norm_index(state, ref, idx)
        key, a = self.elem_heap(state, self.seq_family(ref))
        zi = to_z3(idx, IntS)
        if self.safety:
            self.oblige(state, z3.And(ref.e != 0, zi >= 0, zi < self.vec_len(state, ref)), "index", node)
        e = simp(self.sel(self.sel(a, ref.e), zi))
        et = self.elem_type(ref)
        if et not in ("real", "int"):
            # elements of reference lists in the initial heap are pre-existing objects
            if self.init_elemI is not None:
                self.instantiate_elem_axioms(e)
            if self.quant_depth == 0 and not z3.is_int_value(e):
                # heap well-formedness, as for attribute loads: an element of a list is None or an object that has
                # already been allocated (stated for in-range positions only)
                self.heap_fact(z3.Implies(z3.And(zi >= 0, zi < self.vec_len(state, ref)),
                                          z3.And(e >= 0, e < state.abase + state.nalloc)))
            return self.wrap(self.norm(e), et)
        return self.norm(e)

    init_elemI = None

    def instantiate_elem_axioms(self, e):
        stack, seen = [e], set()
        while stack:
            x = stack.pop()
            i = x.get_id()
            if i in seen:
                continue
            seen.add(i)
            if z3.is_select(x) and z3.is_select(x.arg(0)) and x.arg(0).arg(0).get_id() == self.init_elemI.get_id() \
                    and i not in self.inst_done:
                self.inst_done.add(i)
                self.axioms.append(z3.Implies(x.arg(0).arg(1) < self.alloc0, z3.And(x >= 0, x < self.alloc0)))
            stack.extend(x.children())

    def vec_set(self, state, ref, idx, val, node=None, ghost=False):
        idx = self.norm_index(state, ref, idx)
        key, a = self.elem_heap(state, self.seq_family(ref))
        zi = to_z3(idx, IntS)
        if self.safety:
            self.oblige(state, z3.And(ref.e != 0, zi >= 0, zi < self.vec_len(state, ref)), "index", node)
        if not ghost:
            self.check_frame(state, ("elems", ref.e, None), node)
        sort = RealS if key == "$elemR" else IntS
        inner = z3.Store(z3.Select(a, ref.e), zi, to_z3(val, sort))
        state.heap[key] = z3.Store(a, ref.e, inner)

    def alloc(self, state, cls):
        r = simp(state.abase + state.nalloc)
        state.nalloc += 1
        return Ref(r, cls)

    def vec_new(self, state, kind, elems=None, length=None, fill=None):
        ref = self.alloc(state, kind)
        lk = self.len_key(ref)
        la = self.len_heap(state, lk)
        if elems is not None:
            length = len(elems)
        state.heap[lk] = z3.Store(la, ref.e, to_z3(length, IntS))
        key, a = self.elem_heap(state, self.seq_family(ref))
        sort = RealS if key == "$elemR" else IntS
        if elems is not None:
            inner = z3.K(IntS, to_z3(0, sort))
            for i, v in enumerate(elems):
                inner = z3.Store(inner, i, to_z3(v, sort))
            state.heap[key] = z3.Store(a, ref.e, inner)
        elif fill is not None:
            state.heap[key] = z3.Store(a, ref.e, z3.K(IntS, to_z3(fill, sort)))
        else:
            # np.ndarray(shape=...) : uninitialised storage -> arbitrary contents
            state.heap[key] = z3.Store(a, ref.e, self.fresh("uninit", z3.ArraySort(IntS, sort)))
        return ref

    def vec_copy(self, state, src, kind=None):
        kind = kind or src.cls
        ref = self.alloc(state, kind)
        lk = self.len_key(ref)
        la = self.len_heap(state, lk)
        state.heap[lk] = z3.Store(la, ref.e, self.sel(self.len_heap(state, self.len_key(src)), src.e))
        fam_src = self.seq_family(src)
        key, a = self.elem_heap(state, self.seq_family(ref))
        if fam_src == self.seq_family(ref):
            state.heap[key] = z3.Store(a, ref.e, z3.Select(a, src.e))
        else:
            # int vector copied into a real vector (np.copy of an int list as double) - only for concrete lengths
            n = concrete(self.vec_len(state, src))
            if n is None:
                self.unsupported("copy between element families with symbolic length")
            inner = z3.K(IntS, z3.RealVal(0))
            for i in range(n):
                inner = z3.Store(inner, i, to_z3(self.vec_get(state, src, i), RealS))
            state.heap[key] = z3.Store(a, ref.e, inner)
        return ref

    # ------------------------------------------------------------------ frames
    def push_frame(self, targets, base, label):
        """targets: list of ('field', refexpr, name) | ('elems', refexpr, None) | ('len', refexpr, None);
        base: allocation mark - anything >= base is fresh and may be written."""
        self.frames.append((targets, base, label))

    def pop_frame(self):
        self.frames.pop()

    def check_frame(self, state, loc, node=None):
        kind, r, name = loc
        for targets, base, label in self.frames:
            if kind == "fieldall":
                ok = any(k2 == "any" or (k2 == "fieldall" and n2 == name) for (k2, r2, n2) in targets)
                if not ok:
                    self.oblige(state, False, "frame[%s]" % label, node,
                                "write to field .%s of arbitrary objects must be inside modifies" % name)
                continue
            alts = [r >= base]
            for (k2, r2, n2) in targets:
                if k2 == "any":
                    alts = [z3.BoolVal(True)]
                    break
                if k2 == "fieldall":
                    if kind == "field" and n2 == name:
                        alts = [z3.BoolVal(True)]
                        break
                    continue
                if k2 == kind and n2 == name:
                    alts.append(r == r2)
                elif k2 == "obj":          # whole object footprint
                    alts.append(r == r2)
            g = simp(zor(*alts))
            if z3.is_true(g):
                continue
            self.oblige(state, g, "frame[%s]" % label, node,
                        "write to %s%s must be inside modifies" % (kind, "." + name if name else ""))

    def parse_target(self, state, t, env=None):
        """modifies target string -> frame location"""
        t = t.strip()
        if t == "*":
            return ("any", None, None)
        tree = ast.parse(t, mode="eval").body
        saved = state.env
        if env is not None:
            state.env = env
        try:
            if isinstance(tree, ast.Call) and isinstance(tree.func, ast.Name) and tree.func.id == "allof":
                # the field of EVERY object (coarse frame, e.g. the link fields touched by a search-dependent splice)
                return ("fieldall", None, tree.args[0].id)
            if isinstance(tree, ast.Call) and isinstance(tree.func, ast.Name) and tree.func.id in ("elems", "len_", "obj"):
                v = self.eval(state, tree.args[0])
                if not isinstance(v, Ref):
                    self.unsupported("modifies target %s is not an object" % t)
                kind = {"elems": "elems", "len_": "len", "obj": "obj"}[tree.func.id]
                if kind in ("elems", "len") and (v.cls or "").startswith(("vec:", "list:")):
                    self.elem_family[v.e.get_id()] = "$elemR" if self.seq_family(v) == "vec:real" else "$elemI"
                return (kind, v.e, self.spec_class(v) if kind == "obj" else None)
            if isinstance(tree, ast.Attribute):
                v = self.eval(state, tree.value)
                if not isinstance(v, Ref):
                    self.unsupported("modifies target %s is not an object field" % t)
                return ("field", v.e, mangle(self.spec_class(v), tree.attr))
            self.unsupported("modifies target syntax: %s" % t)
        finally:
            state.env = saved

    def spec_class(self, ref):
        return ref.cls if ref.cls and not ref.cls.startswith(("vec:", "list:")) else None

    _class_fields = None
    elem_family = {}
    ghost_fields = {"SearchData": ("gseq", "gn", "gpos"), "SearchDataDualQueue": ("gseq", "gn", "gpos"),
                    "DEPQ": ("gitems", "gkeys", "glen", "gcnt"), "Method": ("gtop",), "Problem": ("gcalls", "gevals")}

    def class_fields(self, cls):
        """mangled names of the attributes that the methods of `cls` (and its bases) assign through self"""
        if self._class_fields is None:
            self._class_fields = {}
        if cls not in self._class_fields:
            if self.repo.cls(cls) is None:
                self._class_fields[cls] = None
            else:
                names = set()
                for ci in self.repo.mro(cls):
                    for fn in ci.methods.values():
                        for n in ast.walk(fn):
                            if isinstance(n, ast.Attribute) and isinstance(n.ctx, ast.Store) and \
                                    isinstance(n.value, ast.Name) and n.value.id == "self":
                                names.add(mangle(ci.name, n.attr))
                self._class_fields[cls] = names
        return self._class_fields[cls]

    def havoc_target(self, state, loc):
        kind, r, name = loc
        if kind == "field":
            arr = self.harr(state, name)
            state.heap[name] = z3.Store(arr, r, self.fresh("hv_" + name, arr.sort().range()))
            t = self.field_type(name)
            if t and (t.startswith(("ref:", "vec:", "list:"))):
                v = z3.Select(state.heap[name], r)
                state.assume(z3.And(v >= 0, v < state.abase + state.nalloc))
        elif kind == "fieldall":
            arr = self.harr(state, name)
            state.heap[name] = self.fresh("hv_all_" + name, arr.sort())
        elif kind == "elems":
            fam = self.elem_family.get(r.get_id())      # element family of the sequence, when its static type is known
            for key, S in (("$elemR", ElemR), ("$elemI", ElemI)):
                if fam is not None and key != fam:
                    continue
                a = state.heap.get(key)
                if a is None:
                    a = z3.Const("H0_" + self.prefix + key, S)
                state.heap[key] = z3.Store(a, r, self.fresh("hv_el", S.range()))
        elif kind == "len":
            fam = self.elem_family.get(r.get_id())
            for lk in (("$lenR", "$lenI") if fam is None else (self.len_key(fam=fam),)):
                la = self.len_heap(state, lk)
                nl = self.fresh("hv_len", IntS)
                state.heap[lk] = z3.Store(la, r, nl)
                state.assume(nl >= 0)
        elif kind == "obj":
            # every declared field of the object is havocked, also those no statement has touched yet
            own = self.class_fields(name) if name else None
            for fname, t in list(self.schema.items()):
                if isinstance(fname, str) and not fname.startswith("$") and fname not in state.heap and \
                        (own is None or fname in own or fname in self.ghost_fields.get(name, ())):
                    self.harr(state, fname)
            mine = None if own is None else (set(own) | set(self.ghost_fields.get(name, ())))
            for fname, arr in list(state.heap.items()):
                if fname.startswith("$") or (mine is not None and fname not in mine):
                    continue            # an object has only the fields its class (and bases) assign, plus its ghost fields
                state.heap[fname] = z3.Store(arr, r, self.fresh("hv_" + fname, arr.sort().range()))
                t = self.field_type(fname)
                if t and t.startswith(("ref:", "vec:", "list:")):
                    v = z3.Select(state.heap[fname], r)
                    state.assume(z3.And(v >= 0, v < state.abase + state.nalloc))
        elif kind == "any":
            self.unsupported("havoc of '*'")

    # ------------------------------------------------------------------ expression evaluation
    def truth(self, v, node=None):
        if isinstance(v, bool):
            return v
        if v is None:
            return False
        if is_z3(v):
            if z3.is_bool(v):
                return v
            return v != 0
        if isinstance(v, (int, Fraction)):
            return v != 0
        if isinstance(v, Ref):
            if (v.cls or "").startswith(("vec:", "list:")):
                self.unsupported("truth value of a sequence", node)
            return v.e != 0
        if isinstance(v, str):
            return len(v) > 0
        self.unsupported("truth value of %r" % (v,), node)

    def eval(self, state, node):
        m = getattr(self, "e_" + type(node).__name__, None)
        if m is None:
            self.unsupported("expression %s" % type(node).__name__, node)
        return m(state, node)

    def e_Constant(self, state, node):
        v = node.value
        if isinstance(v, float):
            if v != v or v in (float("inf"), float("-inf")):
                return PINF if v > 0 else NINF
            return Fraction(v)
        return v

    def e_Name(self, state, node):
        n = node.id
        if n in state.env:
            v = state.env[n]
            if isinstance(v, Poison):
                self.unsupported("use of variable '%s': %s" % (n, v.why), node)
            return v
        return self.lookup_global(n, node)

    def lookup_global(self, n, node=None):
        mi = self.repo.modules.get(self.cur_file)
        if mi is not None:
            if n in mi.classes:
                return ClassVal(n, mi.classes[n])
            if n in mi.functions:
                return FuncVal(mi.functions[n], mi)
            if n in mi.imports:
                tgt = mi.imports[n]
                last = tgt.split(".")[-1]
                if tgt.startswith("iOpt."):
                    ci = self.repo.cls(last)
                    if ci is not None:
                        return ClassVal(last, ci)
                    # module-level function / constant of another iOpt module
                    rel = "/".join(tgt.split(".")[:-1]) + ".py"
                    mj = self.repo.modules.get(rel)
                    if mj is not None:
                        if last in mj.functions:
                            return FuncVal(mj.functions[last], mj)
                        if last in mj.globals:
                            return self.eval_global_const(mj, last, node)
                    relm = "/".join(tgt.split(".")) + ".py"
                    if relm in self.repo.modules:
                        return ModuleVal(tgt)
                    self.unsupported("import %s" % tgt, node)
                if tgt in ("typing.List", "typing.Tuple"):
                    return Builtin("typing")
                return self.import_value(tgt, node)
            if n in mi.globals:
                return self.eval_global_const(mi, n, node)
        if n in self.spec_funcs:
            return Builtin("spec:" + n)
        if n in ("len", "range", "abs", "min", "max", "pow", "int", "float", "print", "Exception", "isinstance",
                 "str", "bool", "list", "sum", "round", "super", "enumerate", "zip", "tuple", "object",
                 "BaseException", "RuntimeError", "TypeError", "ValueError", "StopIteration", "KeyboardInterrupt",
                 "IndexError", "ZeroDivisionError", "AttributeError", "KeyError", "NotImplementedError", "iter", "next"):
            return Builtin(n)
        if n in ("True", "False", "None"):
            return {"True": True, "False": False, "None": None}[n]
        self.unsupported("unknown name '%s'" % n, node)

    def import_value(self, tgt, node=None):
        parts = tgt.split(".")
        if parts[0] in ("numpy", "math", "scipy", "copy", "sys", "datetime", "depq", "enum", "abc", "typing",
                        "matplotlib", "sklearn", "random", "time", "os"):
            if len(parts) == 1:
                return ModuleVal(parts[0])
            self.surface.add((".".join(parts[:-1]), parts[-1], self.cur_file, getattr(node, "lineno", 0)))
            return Builtin(tgt)
        self.unsupported("import %s" % tgt, node)

    def eval_global_const(self, mi, name, node=None):
        expr = mi.globals[name]
        saved = (self.cur_file,)
        self.cur_file = mi.relpath
        try:
            st = self.new_state()
            return self.eval(st, expr)
        finally:
            self.cur_file = saved[0]

    def e_Attribute(self, state, node):
        base = self.eval(state, node.value)
        return self.getattr(state, base, node.attr, node)

    def getattr(self, state, base, attr, node=None):
        if isinstance(base, ModuleVal):
            return self.module_attr(base, attr, node)
        if isinstance(base, Builtin) and base.name.startswith(("numpy", "scipy", "sys", "datetime", "math")):
            self.surface.add((base.name, attr, self.cur_file, getattr(node, "lineno", 0)))
            return self.module_attr(ModuleVal(base.name), attr, node)
        if isinstance(base, ClassVal):
            ci, fn = self.repo.find_method(base.name, attr)
            if fn is not None:
                return FuncVal(fn, ci.module, ci.name)
            for c in self.repo.mro(base.name):
                if attr in c.class_attrs:
                    saved = self.cur_file
                    self.cur_file = c.module.relpath
                    try:
                        return self.eval(self.new_state(), c.class_attrs[attr])
                    finally:
                        self.cur_file = saved
            self.unsupported("class attribute %s.%s" % (base.name, attr), node)
        if isinstance(base, Ref):
            k = base.cls or ""
            if k.startswith(("vec:", "list:")):
                if attr == "size":
                    return self.vec_len(state, base)
                if attr in ("append", "copy", "fill", "clear"):
                    return BoundMethod(base, k, attr, None, None)
                self.unsupported("sequence attribute .%s" % attr, node)
            cls = self.spec_class(base)
            mattr = mangle(self.cur_class, attr)
            if cls is not None and (cls, attr) in self.contracts and self.repo.cls(cls) is None:
                return BoundMethod(base, cls, attr, "external", None)
            if cls is not None:
                ci, fn = self.repo.find_method(cls, attr)
                if fn is not None:
                    decs = ci.decorators.get(attr, [])
                    if "property" in decs:
                        return self.call_function(state, ci, attr, fn, [base], {}, node)
                    if "staticmethod" in decs:
                        return FuncVal(fn, ci.module, ci.name)
                    return BoundMethod(base, cls, attr, fn, ci)
                for c in self.repo.mro(cls):
                    if attr in c.class_attrs and self.field_type(mattr, cls) is None:
                        saved = self.cur_file
                        self.cur_file = c.module.relpath
                        try:
                            return self.eval(self.new_state(), c.class_attrs[attr])
                        finally:
                            self.cur_file = saved
            if cls is not None and self.repo.cls(cls) is not None and not self.spec_mode and \
                    self.field_type(mattr, cls) is None and mattr not in (self.class_fields(cls) or ()) and \
                    attr not in self.ghost_fields.get(cls, ()):
                # neither a method, a class attribute nor a field of the declared class (or its bases): AttributeError
                # for an object of exactly that class (the declared element type of e.g. Solution.bestTrials is Trial)
                self.oblige(state, False, "attribute", node, "an object of declared class %s has an attribute '%s'" % (cls, attr))
            return self.load(state, base, mattr, node)
        if isinstance(base, Opaque):
            return Builtin("opaque:" + attr)
        if isinstance(base, Tuple_):
            self.unsupported("attribute of tuple", node)
        if base is None:
            self.unsupported("attribute '%s' of None" % attr, node)
        self.unsupported("attribute '%s' of %r" % (attr, base), node)

    def module_attr(self, mod, attr, node=None):
        name = mod.name
        line = getattr(node, "lineno", 0)
        self.surface.add((name, attr, self.cur_file, line))
        full = name + "." + attr
        if full in ("numpy.inf", "numpy.infty", "numpy.Inf", "math.inf"):
            return PINF
        if full == "sys.float_info":
            return ModuleVal("sys.float_info")
        if full == "sys.float_info.max":
            return FMAX
        if full == "math.pi" or full == "numpy.pi":
            return self.spec_const("PI")
        if name in ("scipy", "matplotlib", "sklearn") and attr in ("optimize", "interpolate", "pyplot"):
            return ModuleVal(full)
        return Builtin(full)

    def spec_const(self, n):
        if n == "PI":
            c = z3.Real("PI")
            ax = z3.And(c > z3.RealVal("3.14159265358979"), c < z3.RealVal("3.14159265358980"))
            if not any(a.eq(ax) for a in self.axioms):
                self.axioms.append(ax)
            return c
        self.unsupported("constant " + n)

    def e_UnaryOp(self, state, node):
        v = self.eval(state, node.operand)
        if isinstance(node.op, ast.Not):
            return znot(self.truth(v, node))
        if isinstance(node.op, ast.USub):
            c = concrete(v)
            if c is not None and not isinstance(c, bool):
                return -c
            return -to_z3(v)
        if isinstance(node.op, ast.UAdd):
            return v
        self.unsupported("unary operator", node)

    def _push_guard(self, state, cond):
        state.pc.append(to_z3(cond, BoolS))
        return len(state.pc) - 1

    def _pop_guard(self, state, idx):
        """remove the temporary guard at position idx; assumptions made while it was active become guarded"""
        g = state.pc[idx]
        later = state.pc[idx + 1:]
        del state.pc[idx:]
        for a in later:
            state.pc.append(z3.Implies(g, a))

    def e_BoolOp(self, state, node):
        is_and = isinstance(node.op, ast.And)
        acc = []
        guards = []
        try:
            for sub in node.values:
                v = self.truth(self.eval(state, sub), sub)
                c = concrete(v)
                if c is not None:
                    if (is_and and not c) or (not is_and and c):
                        acc.append(bool(c))
                        break
                    continue
                acc.append(v)
                # short-circuit: later operands are evaluated only when this one is true (and) / false (or)
                guards.append(self._push_guard(state, v if is_and else znot(v)))
        finally:
            for idx in reversed(guards):
                self._pop_guard(state, idx)
        if not acc:
            return is_and
        return zand(*acc) if is_and else zor(*acc)

    def e_IfExp(self, state, node):
        c = self.truth(self.eval(state, node.test), node)
        cc = concrete(c)
        if cc is not None:
            return self.eval(state, node.body if cc else node.orelse)
        g = self._push_guard(state, c)
        try:
            a = self.eval(state, node.body)
        finally:
            self._pop_guard(state, g)
        g = self._push_guard(state, znot(c))
        try:
            b = self.eval(state, node.orelse)
        finally:
            self._pop_guard(state, g)
        v = merge_value(to_z3(c, BoolS), a, b)
        if isinstance(v, Poison):
            self.unsupported("conditional expression: " + v.why, node)
        return v

    def e_Compare(self, state, node):
        left = self.eval(state, node.left)
        res = []
        for op, rn in zip(node.ops, node.comparators):
            right = self.eval(state, rn)
            res.append(self.compare(state, op, left, right, node))
            left = right
        return res[0] if len(res) == 1 else zand(*res)

    def compare(self, state, op, a, b, node=None):
        if isinstance(op, (ast.Is, ast.IsNot, ast.Eq, ast.NotEq)):
            neg = isinstance(op, (ast.IsNot, ast.NotEq))
            if isinstance(a, ArrVal) and isinstance(b, ArrVal):
                r = a.arr == b.arr
                return znot(r) if neg else r
            if isinstance(a, Ref) or isinstance(b, Ref) or a is None or b is None:
                if isinstance(op, (ast.Eq, ast.NotEq)) and isinstance(a, Ref) and isinstance(b, Ref) and \
                        (a.cls or "").startswith(("vec:", "list:")) and self.spec_mode == 0:
                    self.unsupported("== on sequences", node)
                if (a is None or isinstance(a, Ref)) and (b is None or isinstance(b, Ref)):
                    ea = a.e if a is not None else z3.IntVal(0)
                    eb = b.e if b is not None else z3.IntVal(0)
                    r = simp(ea == eb)
                else:
                    # None compared with a number/bool: identity is False
                    ra, other = (a, b) if isinstance(a, Ref) else (b, a)
                    if isinstance(ra, Ref) and is_z3(other) and z3.is_int(other):
                        # element of an untyped list (`[]` literal): its integer IS the reference
                        r = simp(ra.e == other)
                        return znot(r) if neg else r
                    if isinstance(op, (ast.Is, ast.IsNot)) and (a is None or b is None):
                        other = b if a is None else a
                        if is_z3(other) and z3.is_bool(other) or isinstance(other, (bool, int, Fraction, str)) or is_num(other):
                            r = False
                        else:
                            self.unsupported("is-comparison", node)
                    else:
                        self.unsupported("comparison of reference with value", node)
                return znot(r) if neg else r
            if isinstance(op, (ast.Is, ast.IsNot)):
                # `x is True` on booleans
                if isinstance(b, bool) or isinstance(a, bool) or (is_z3(a) and z3.is_bool(a)):
                    r = to_z3(a, BoolS) == to_z3(b, BoolS)
                    return znot(r) if neg else simp(r)
                self.unsupported("identity comparison of values", node)
            if isinstance(a, str) and isinstance(b, str):
                return (a != b) if neg else (a == b)
            ca, cb = concrete(a), concrete(b)
            if ca is not None and cb is not None and not is_z3(a) and not is_z3(b):
                return (ca != cb) if neg else (ca == cb)
            if isinstance(a, str) or isinstance(b, str):
                r = to_z3(a, IntS) == to_z3(b, IntS)
                return znot(r) if neg else r
            if (is_z3(a) and z3.is_bool(a)) or (is_z3(b) and z3.is_bool(b)) or isinstance(a, bool) or isinstance(b, bool):
                r = to_z3(a, BoolS) == to_z3(b, BoolS)
            else:
                s = num_sort(a, b)
                r = to_z3(a, s) == to_z3(b, s)
            return znot(r) if neg else r
        if isinstance(op, (ast.In, ast.NotIn)):
            if isinstance(b, Tuple_):
                r = zor(*[self.compare(state, ast.Eq(), a, x, node) for x in b.items])
                return znot(r) if isinstance(op, ast.NotIn) else r
            self.unsupported("'in' on non-tuple", node)
        ca, cb = concrete(a), concrete(b)
        if ca is not None and cb is not None and not is_z3(a) and not is_z3(b):
            return {ast.Lt: ca < cb, ast.LtE: ca <= cb, ast.Gt: ca > cb, ast.GtE: ca >= cb}[type(op)]
        if not (is_num(a) and is_num(b)):
            self.unsupported("ordering comparison of %r and %r" % (a, b), node)
        s = num_sort(a, b)
        za, zb = to_z3(a, s), to_z3(b, s)
        return {ast.Lt: za < zb, ast.LtE: za <= zb, ast.Gt: za > zb, ast.GtE: za >= zb}[type(op)]

    def e_BinOp(self, state, node):
        a = self.eval(state, node.left)
        b = self.eval(state, node.right)
        return self.binop(state, node.op, a, b, node)

    def binop(self, state, op, a, b, node=None):
        if isinstance(a, Opaque) or isinstance(b, Opaque):
            return Opaque("arith")          # wall-clock values and the like: never inspected
        if isinstance(a, str) or isinstance(b, str):
            if isinstance(op, ast.Add) and isinstance(a, str) and isinstance(b, str):
                return a + b
            if isinstance(op, ast.Mult) and isinstance(a, str) and isinstance(b, int):
                return a * b
            return "<str>"
        if isinstance(a, bool):
            a = int(a)
        if isinstance(b, bool):
            b = int(b)
        if is_z3(a) and z3.is_bool(a):
            a = z3.If(a, 1, 0)
        if is_z3(b) and z3.is_bool(b):
            b = z3.If(b, 1, 0)
        if isinstance(a, Ref) and (a.cls or "").startswith("list:") and isinstance(op, ast.Mult):
            n = concrete(b)
            l0 = concrete(self.vec_len(state, a))
            if n is not None and l0 is not None:
                items = [self.vec_get(state, a, i) for i in range(l0)] * n
                return self.vec_new(state, a.cls, elems=items)
        if not (is_num(a) and is_num(b)):
            self.unsupported("arithmetic on %r and %r" % (a, b), node)
        ca, cb = (a if not is_z3(a) else None), (b if not is_z3(b) else None)
        if ca is not None and cb is not None:
            return self.concrete_binop(op, ca, cb, node)
        s = num_sort(a, b)
        if isinstance(op, ast.Div):
            s = RealS
        za, zb = to_z3(a, s), to_z3(b, s)
        if isinstance(op, ast.Add):
            return za + zb
        if isinstance(op, ast.Sub):
            return za - zb
        if isinstance(op, ast.Mult):
            if concrete(a) == 0 or concrete(b) == 0:
                return 0 if s == IntS else Fraction(0)
            if ca is None and cb is None and self.spec_mode == 0:
                # product of two symbolic terms: equal to za*zb in every case; the unit cases are offered to the
                # solver as linear alternatives (pure rewriting, no assumption)
                if z3.is_int(to_z3(b)):
                    ib = to_z3(b)
                    return z3.If(ib == 1, za, z3.If(ib == -1, -za, z3.If(ib == 0, to_z3(0, s), za * zb)))
                if z3.is_int(to_z3(a)):
                    ia = to_z3(a)
                    return z3.If(ia == 1, zb, z3.If(ia == -1, -zb, z3.If(ia == 0, to_z3(0, s), za * zb)))
            return za * zb
        if isinstance(op, ast.Div):
            if self.safety:
                self.oblige(state, zb != 0, "divzero", node)
            cb2 = concrete(b)
            if cb2 is not None and cb2 != 0:
                return za * to_z3(Fraction(1) / Fraction(cb2), RealS)
            return za / zb
        if isinstance(op, ast.Pow):
            cb2 = concrete(b)
            if isinstance(cb2, int) and 0 <= cb2 <= 8:
                r = to_z3(1, s)
                for _ in range(cb2):
                    r = r * za
                return r
            return self.call_builtin(state, "pow", [a, b], {}, node)
        if isinstance(op, ast.FloorDiv) and s == IntS:
            return za / zb      # z3 int division floors for positive divisor
        if isinstance(op, ast.Mod) and s == IntS:
            return za % zb
        self.unsupported("binary operator %s" % type(op).__name__, node)

    def concrete_binop(self, op, a, b, node=None):
        try:
            if isinstance(op, ast.Add):
                return a + b
            if isinstance(op, ast.Sub):
                return a - b
            if isinstance(op, ast.Mult):
                return a * b
            if isinstance(op, ast.Div):
                return Fraction(a) / Fraction(b)
            if isinstance(op, ast.FloorDiv):
                return a // b
            if isinstance(op, ast.Mod):
                return a % b
            if isinstance(op, ast.Pow):
                if isinstance(b, int) or (isinstance(b, Fraction) and b.denominator == 1):
                    return Fraction(a) ** int(b) if not isinstance(a, int) or b < 0 else a ** int(b)
                return self.call_builtin(None, "pow", [a, b], {}, node)
        except ZeroDivisionError:
            self.unsupported("division by constant zero", node)
        self.unsupported("binary operator %s" % type(op).__name__, node)

    def e_Subscript(self, state, node):
        base = self.eval(state, node.value)
        if isinstance(node.slice, ast.Slice):
            self.unsupported("slice", node)
        idx = self.eval(state, node.slice)
        if isinstance(base, Tuple_):
            c = concrete(idx)
            if c is None:
                self.unsupported("symbolic tuple index", node)
            return base.items[c]
        if isinstance(base, Ref):
            return self.vec_get(state, base, idx, node)
        if isinstance(base, ArrVal):
            e = simp(self.sel(base.arr, to_z3(idx, IntS)))
            return self.wrap(self.norm(e), base.elem)
        if isinstance(base, Builtin):
            return base        # typing subscripts (List[...])
        self.unsupported("subscript of %r" % (base,), node)

    def e_Tuple(self, state, node):
        return Tuple_([self.eval(state, e) for e in node.elts])

    def e_List(self, state, node):
        items = [self.eval(state, e) for e in node.elts]
        return self.list_from_items(state, items)

    def list_from_items(self, state, items):
        kind = "list:?"
        if items:
            v = items[0]
            if isinstance(v, Ref):
                kind = "list:" + (v.cls or "?")
            elif isinstance(v, Fraction) or (is_z3(v) and z3.is_real(v)):
                kind = "list:real"
            else:
                kind = "list:int"
        return self.vec_new(state, kind, elems=items)

    def e_ListComp(self, state, node):
        if len(node.generators) != 1 or node.generators[0].ifs:
            self.unsupported("list comprehension form", node)
        g = node.generators[0]
        it = self.eval(state, g.iter)
        if not (isinstance(it, Tuple_)):
            self.unsupported("list comprehension over non-concrete range", node)
        items = []
        saved = dict(state.env)
        for v in it.items:
            self.assign_target(state, g.target, v)
            items.append(self.eval(state, node.elt))
        state.env = saved
        return self.list_from_items(state, items)

    def e_Dict(self, state, node):
        for v in node.values:
            if v is not None:
                self.eval(state, v)
        return Opaque("dict")          # option dictionaries handed to dependencies: never inspected by the verified code

    def e_JoinedStr(self, state, node):
        for v in node.values:
            if isinstance(v, ast.FormattedValue):
                self.eval(state, v.value)
        return "<fstring>"

    def e_Lambda(self, state, node):
        self.unsupported("lambda", node)

    def e_Call(self, state, node):
        # spec-only special forms
        if isinstance(node.func, ast.Name) and self.spec_mode:
            n = node.func.id
            if n == "old":
                if self.old_state is None:
                    self.unsupported("old() outside a post-condition", node)
                saved_env = self.old_state.env
                self.old_state.env = state.env
                so, self.old_state = self.old_state, None
                try:
                    return self.eval(so, node.args[0])
                finally:
                    self.old_state = so
                    so.env = saved_env
            if n == "forall":
                return self.spec_forall(state, node)
            if n == "implies" and len(node.args) == 2:
                a = self.truth(self.eval(state, node.args[0]), node)
                ca = concrete(a)
                if ca is not None:
                    return self.truth(self.eval(state, node.args[1]), node) if ca else True
                g = self._push_guard(state, a)
                try:
                    b = self.truth(self.eval(state, node.args[1]), node)
                finally:
                    self._pop_guard(state, g)
                return zimplies(a, b)
            if n == "forall_ref":
                # forall_ref("Class", lambda o: body): o ranges over all objects (references) of that class
                cls = node.args[0].value
                lam = node.args[1]
                var = lam.args.args[0].arg
                k = self.fresh("q_" + var, IntS)
                saved = state.env.get(var, None)
                state.env[var] = Ref(k, cls)
                self.quant_depth += 1
                try:
                    b = to_z3(self.truth(self.eval(state, lam.body)), BoolS)
                finally:
                    self.quant_depth -= 1
                    if saved is None:
                        state.env.pop(var, None)
                    else:
                        state.env[var] = saved
                return self.quantify(k, z3.Implies(k != 0, b))
            if n == "exists":
                return znot(self.spec_forall(state, node, neg=True))
        if isinstance(node.func, ast.Name) and node.func.id == "super":
            self.unsupported("bare super()", node)
        # super().__init__(...)
        if isinstance(node.func, ast.Attribute) and isinstance(node.func.value, ast.Call) and \
                isinstance(node.func.value.func, ast.Name) and node.func.value.func.id == "super":
            selfv = state.env.get("self")
            mro = self.repo.mro(self.cur_class)
            for ci in mro[1:]:
                if node.func.attr in ci.methods:
                    args, kw = self.eval_args(state, node)
                    return self.invoke(state, ci, node.func.attr, ci.methods[node.func.attr], [selfv] + args, kw, node)
            if node.func.attr == "__init__":
                return None
            self.unsupported("super().%s" % node.func.attr, node)
        f = self.eval(state, node.func)
        args, kw = self.eval_args(state, node)
        return self.call_value(state, f, args, kw, node)

    def eval_args(self, state, node):
        args = []
        for a in node.args:
            if isinstance(a, ast.Starred):
                self.unsupported("*args", a)
            args.append(self.eval(state, a))
        kw = {}
        for k in node.keywords:
            if k.arg is None:
                self.unsupported("**kwargs", node)
            kw[k.arg] = self.eval(state, k.value)
        return args, kw

    def spec_forall(self, state, node, neg=False):
        """forall(lo, hi, lambda k: body): conjunction when lo,hi concrete, else a z3 quantifier"""
        lo = self.eval(state, node.args[0])
        hi = self.eval(state, node.args[1])
        lam = node.args[2]
        if not isinstance(lam, ast.Lambda):
            self.unsupported("forall needs a lambda", node)
        var = lam.args.args[0].arg
        clo, chi = concrete(lo), concrete(hi)
        saved = state.env.get(var, None)
        try:
            if clo is not None and chi is not None:
                parts = []
                for k in range(clo, chi):
                    state.env[var] = k
                    b = self.truth(self.eval(state, lam.body))
                    parts.append(znot(b) if neg else b)
                return zand(*parts)
            k = self.fresh("q_" + var, IntS)
            state.env[var] = k
            self.quant_depth += 1
            try:
                b = to_z3(self.truth(self.eval(state, lam.body)), BoolS)
            finally:
                self.quant_depth -= 1
            if neg:
                b = z3.Not(b)
            return self.quantify(k, z3.Implies(z3.And(to_z3(lo, IntS) <= k, k < to_z3(hi, IntS)), b))
        finally:
            if saved is None:
                state.env.pop(var, None)
            else:
                state.env[var] = saved

    @staticmethod
    def quantify(k, body):
        """forall k. body, with explicit single-term triggers select(A, k) (A free of k) when the body has any"""
        kid = k.get_id()
        body = z3.simplify(body)       # triggers are taken from the normal form the solver will see
        pats, offs, seen, stack = {}, {}, set(), [body]

        def has_k(e):
            st2, sn = [e], set()
            while st2:
                x = st2.pop()
                if x.get_id() == kid:
                    return True
                if x.get_id() in sn:
                    continue
                sn.add(x.get_id())
                if z3.is_quantifier(x):
                    st2.append(x.body())
                else:
                    st2.extend(x.children())
            return False
        OKK = (z3.Z3_OP_UNINTERPRETED, z3.Z3_OP_SELECT, z3.Z3_OP_STORE, z3.Z3_OP_ANUM, z3.Z3_OP_ADD, z3.Z3_OP_SUB,
               z3.Z3_OP_CONST_ARRAY, z3.Z3_OP_TO_REAL)

        def pat_ok(e):
            st2, sn = [e], set()
            while st2:
                x = st2.pop()
                if x.get_id() in sn:
                    continue
                sn.add(x.get_id())
                if not z3.is_app(x) or x.decl().kind() not in OKK:
                    return False
                st2.extend(x.children())
            return True
        while stack:
            x = stack.pop()
            if x.get_id() in seen:
                continue
            seen.add(x.get_id())
            if z3.is_quantifier(x):
                continue            # nested quantifiers get their own triggers
            if z3.is_select(x) and not has_k(x.arg(0)) and pat_ok(x.arg(0)):
                ix = x.arg(1)
                if ix.get_id() == kid:
                    pats[x.get_id()] = x
                elif z3.is_add(ix) and ix.num_args() == 2 and any(c.get_id() == kid for c in ix.children()) and \
                        any(z3.is_int_value(c) for c in ix.children()):
                    offs[x.get_id()] = x        # select(A, k + c): secondary trigger
            stack.extend(x.children())
        if pats or offs:
            return z3.ForAll([k], body, patterns=(list(pats.values()) + list(offs.values()))[:8])
        return z3.ForAll([k], body)

    # ------------------------------------------------------------------ calls
    def call_value(self, state, f, args, kw, node=None):
        if isinstance(f, Builtin):
            return self.call_builtin(state, f.name, args, kw, node)
        if isinstance(f, BoundMethod):
            if f.fn == "external":
                return self.call_external(state, f.cls, f.name, [f.recv] + args, kw, node)
            if f.fn is None:
                return self.call_seq_method(state, f, args, kw, node)
            return self.invoke(state, f.info, f.name, f.fn, [f.recv] + args, kw, node, recv_cls=f.cls)
        if isinstance(f, FuncVal):
            ci = self.repo.cls(f.cls) if f.cls else None
            return self.invoke(state, ci, f.fn.name, f.fn, args, kw, node, module=f.module)
        if isinstance(f, ClassVal):
            return self.construct(state, f, args, kw, node)
        self.unsupported("call of %r" % (f,), node)

    def construct(self, state, cv, args, kw, node=None):
        if cv.info is None:
            if cv.name in EXC_PARENTS:
                return ExcVal(cv.name)
            self.unsupported("constructor of external class %s" % cv.name, node)
        # exception classes defined in repo
        for ci in self.repo.mro(cv.name):
            for b in ci.bases:
                if b in EXC_PARENTS:
                    return ExcVal(cv.name)
        obj = self.alloc(state, cv.name)
        ci, fn = self.repo.find_method(cv.name, "__init__")
        if fn is not None:
            self.invoke(state, ci, "__init__", fn, [obj] + args, kw, node, recv_cls=cv.name)
        return obj

    def bind_args(self, state, fn, args, kw, node=None, defaults_owner=None):
        """CPython binding of positional/keyword arguments; arity errors are TypeError obligations."""
        a = fn.args
        if a.vararg or a.kwarg or a.posonlyargs:
            self.unsupported("*args/**kwargs in callee %s" % fn.name, node)
        names = [x.arg for x in a.args]
        bound = {}
        if len(args) > len(names):
            return None, "takes %d positional arguments but %d were given" % (len(names), len(args))
        for n, v in zip(names, args):
            bound[n] = v
        for k, v in kw.items():
            if k not in names and k not in [x.arg for x in a.kwonlyargs]:
                return None, "unexpected keyword argument '%s'" % k
            if k in bound:
                return None, "multiple values for argument '%s'" % k
            bound[k] = v
        ndef = len(a.defaults)
        for i, n in enumerate(names):
            if n not in bound:
                j = i - (len(names) - ndef)
                if j < 0:
                    return None, "missing required positional argument '%s'" % n
                bound[n] = ("$default", a.defaults[j], fn, j)
        return bound, None

    def default_value(self, state, dflt, fn, j, ci):
        """Default argument values are evaluated ONCE at definition time (CPython): an immutable constant is
        re-evaluated harmlessly; a mutable display / constructor call is one pre-existing shared object."""
        if isinstance(dflt, ast.Constant) or (isinstance(dflt, ast.UnaryOp) and isinstance(dflt.operand, ast.Constant)):
            return self.eval(state, dflt)
        if isinstance(dflt, ast.Attribute) or isinstance(dflt, ast.Name):
            # e.g. FunctionType.OBJECTIV, TypeOfCalculation.FUNCTION (enum members): opaque interned constants
            return str_id(ast.unparse(dflt))
        # mutable default: one shared pre-existing object per (function, position)
        key = "$dflt:%s.%s:%d" % (ci.name if ci else "", fn.name, j)
        kind = "list:?"
        if isinstance(dflt, ast.List):
            if dflt.elts and isinstance(dflt.elts[0], ast.Call) and isinstance(dflt.elts[0].func, ast.Name):
                kind = "list:" + dflt.elts[0].func.id
            elif dflt.elts and isinstance(dflt.elts[0], ast.Constant):
                kind = "list:int" if isinstance(dflt.elts[0].value, int) else "list:real"
        elif isinstance(dflt, ast.Call) and isinstance(dflt.func, ast.Name):
            kind = dflt.func.id
        r = z3.Int(self.prefix + key)
        ax = z3.And(r >= 1, r < self.alloc0)
        if not any(x.eq(ax) for x in self.axioms):
            self.axioms.append(ax)
            if isinstance(dflt, ast.List):
                # the shared list has the length of the display at definition time only if never mutated: not assumed
                pass
        self.shared_defaults = getattr(self, "shared_defaults", {})
        self.shared_defaults[key] = (r, ast.unparse(dflt))
        return Ref(r, kind)

    def contract_for(self, cls, name):
        if cls is not None:
            for ci in self.repo.mro(cls):
                c = self.contracts.get((ci.name, name))
                if c is not None:
                    return c
            return None
        return self.contracts.get((None, name))

    def invoke(self, state, ci, name, fn, args, kw, node=None, recv_cls=None, module=None):
        cname = ci.name if ci else None
        con = self.contract_for(recv_cls or cname, name)
        bound, err = self.bind_args(state, fn, args, kw, node)
        if err is not None:
            self.oblige(state, False, "arity", node, "%s.%s() %s" % (cname, name, err))
            state.assume(False)
            return Poison("arity error")
        for k, v in list(bound.items()):
            if isinstance(v, tuple) and v and v[0] == "$default":
                saved = (self.cur_file, self.cur_class)
                self.cur_file = (ci.module.relpath if ci else (module.relpath if module else self.cur_file))
                self.cur_class = cname
                try:
                    bound[k] = self.default_value(state, v[1], v[2], v[3], ci)
                finally:
                    self.cur_file, self.cur_class = saved
        self.trace_calls.append(((cname, name), getattr(node, "lineno", 0)))
        if con is not None:
            return self.apply_contract(state, con, bound, node)
        if self.inline is not None and self.spec_mode == 0 and (cname, name) not in self.inline \
                and ("*", name) not in self.inline and (cname, "*") not in self.inline \
                and not (name.startswith("_") and not name.startswith("__init") and not (name.startswith("__") and name.endswith("__"))):
            # (a private helper without a contract - the usual result of an "extract method" refactoring - is executed
            #  in line: its body is analysed in the caller's context, nothing is assumed about it)
            self.unsupported("call to %s.%s has neither a contract nor an inline permission" % (cname, name), node)
        return self.call_function(state, ci, name, fn, None, None, node, bound=bound, module=module)

    verifying = None
    quant_depth = 0
    active_ghost_after = None
    ghost_after_done = ()
    fn_pre_state = None

    def call_function(self, state, ci, name, fn, args, kw, node=None, bound=None, module=None):
        """Inline execution of a callee body (only for functions without a contract)."""
        if bound is None:
            bound, err = self.bind_args(state, fn, args, kw or {}, node)
            if err:
                self.unsupported("arity in inlined call: " + err, node)
        if self.call_depth > 12:
            self.unsupported("inlining depth", node)
        saved = (state.env, self.cur_file, self.cur_class)
        state.env = dict(bound)
        self.cur_file = ci.module.relpath if ci else (module.relpath if module else self.cur_file)
        self.cur_class = ci.name if ci else None
        self.call_depth += 1
        try:
            outs = self.exec_block(state, strip_doc(fn.body))
        finally:
            self.call_depth -= 1
            self.cur_file, self.cur_class = saved[1], saved[2]
        rets, raises = [], []
        for st, oc, val in outs:
            if oc in (Outcome.NORMAL, Outcome.RETURN):
                st.env = {"$ret": val if oc == Outcome.RETURN else None}
                rets.append(st)
            elif oc == Outcome.RAISE:
                raises.append((st, val))
            else:
                self.unsupported("break/continue escaping function", node)
        for st, exc in raises:
            st.env = dict(saved[0])
            self.pending_raises.append((st, exc))
        if not rets:
            # every path raised
            state.assume(False)
            state.env = saved[0]
            return Poison("callee always raises")
        plen = len(state.pc)
        if len(rets) == 1 and rets[0] is state:
            m = state
        else:
            m = merge_states(self.common_prefix(rets), rets)
        ret = m.env["$ret"]
        state.env, state.heap, state.pc, state.abase, state.nalloc = saved[0], m.heap, m.pc, m.abase, m.nalloc
        if isinstance(ret, Poison):
            self.unsupported("callee return value: " + ret.why, node)
        return ret

    pending_raises = []

    @staticmethod
    def common_prefix(states):
        n = min(len(s.pc) for s in states)
        p = 0
        first = states[0].pc
        while p < n and all(s.pc[p] is first[p] or s.pc[p].eq(first[p]) for s in states[1:]):
            p += 1
        return p

    # -- contracts at call sites
    def typed_fresh(self, state, base, t):
        if t is None or t == "none":
            return None
        if t == "real":
            return self.fresh(base, RealS)
        if t == "int" or t == "str" or t == "any":
            return self.fresh(base, IntS)
        if t == "bool":
            return self.fresh(base, BoolS)
        if t.startswith("tuple("):
            parts = [p.strip() for p in t[6:-1].split(",")]
            return Tuple_([self.typed_fresh(state, base + str(i), p) for i, p in enumerate(parts)])
        if t.startswith(("seq:", "map:")):
            return ArrVal(self.fresh(base, self.sort_of_type(t)), self.arr_elem(t))
        r = self.fresh(base, IntS)
        v = self.wrap(r, t)
        state.assume(z3.And(r >= (0 if t.endswith("?") else 1), r < state.abase + state.nalloc))
        if t.endswith("?"):
            v.cls = v.cls[:-1]
        return v

    def eval_spec(self, state, clause, env, old=None, node=None):
        """Evaluate a spec clause (string or callable) to a z3 Bool in `state` with bindings `env`."""
        if callable(clause):
            saved_env = state.env
            state.env = env
            try:
                return to_z3(clause(self, state, old), BoolS)
            finally:
                state.env = saved_env
        tree = ast.parse(clause.strip(), mode="eval").body
        saved = (state.env, self.old_state, self.safety)
        state.env = env
        self.old_state = old
        self.spec_mode += 1
        self.safety = False
        try:
            v = self.eval(state, tree)
            return to_z3(self.truth(v), BoolS)
        finally:
            self.spec_mode -= 1
            state.env, self.old_state, self.safety = saved

    def eval_spec_value(self, state, expr, env, old=None):
        tree = ast.parse(expr.strip(), mode="eval").body
        saved = (state.env, self.old_state, self.safety)
        state.env = env
        self.old_state = old
        self.spec_mode += 1
        self.safety = False
        try:
            return self.eval(state, tree)
        finally:
            self.spec_mode -= 1
            state.env, self.old_state, self.safety = saved

    def apply_contract(self, state, con, bound, node=None):
        env = dict(bound)
        for k, v in list(env.items()):
            if v is None and con.params.get(k) == "int":
                env[k] = 0        # documented encoding: an optional int (maxlen=None) is 0
        label = "%s" % con.qual
        saved_cls = self.cur_class
        self.cur_class = con.cls
        try:
            # a parameter typed as a (non-optional) reference is assumed non-None inside the callee's own proof: the
            # caller owes that fact
            for k, t in con.params.items():
                if isinstance(t, str) and t.startswith(("ref:", "vec:", "list:")) and not t.endswith("?") and k in env:
                    v = env[k]
                    if v is None:
                        self.oblige(state, False, "requires[%s#nonnull:%s]" % (label, k), node, "%s is not None" % k)
                    elif isinstance(v, Ref) and not (z3.is_int_value(v.e) and v.e.as_long() != 0):
                        self.oblige(state, v.e != 0, "requires[%s#nonnull:%s]" % (label, k), node, "%s is not None" % k)
            for i, rq in enumerate(con.requires):
                g = self.eval_spec(state, rq, env)
                self.oblige(state, g, "requires[%s#%d]" % (label, i), node, str(rq))
            pre = state.fork()
            pre.env = env
            # frame: the callee's modifies must be inside every active frame of the caller
            locs = [self.parse_target(state, t, env) for t in con.modifies]
            for loc in locs:
                if loc[0] != "any":
                    self.check_frame(state, loc if loc[0] != "len" else ("elems", loc[1], None), node)
            # allocation by the callee: new symbolic allocation base
            mark = simp(state.abase + state.nalloc)
            if con.allocates:
                nb = self.fresh("abase", IntS)
                state.assume(nb >= mark)
                state.abase, state.nalloc = nb, 0
            for loc in locs:
                self.havoc_target(state, loc)
            res = self.typed_fresh(state, "res_" + con.name, con.result)
            env2 = dict(env)
            env2["result"] = res
            env2["$mark"] = mark
            if con.allocates:
                env2["$upper"] = state.abase
            for gname, gt in con.ghost_results.items():
                env2[gname] = self.typed_fresh(state, "g_" + gname, gt)
                state.env[gname] = env2[gname]      # ghost out-parameters become ghost locals of the caller
            # exceptional exits
            for exc, posts in con.raises.items():
                disc = self.fresh("exc_" + con.name, BoolS)      # which exit the callee takes: branch condition
                st2 = state.fork()
                st2.add_cond(disc)
                state.add_cond(z3.Not(disc))
                for p in posts:
                    st2.assume(self.eval_spec(st2, p, env2, pre))
                st2.env = dict(self.caller_env_stack[-1]) if self.caller_env_stack else dict(state.env)
                self.pending_raises.append((st2, ExcVal(exc)))
            for p in list(con.ensures) + list(getattr(con, "assumed_ensures", ())):
                state.assume(self.eval_spec(state, p, env2, pre))
            return res
        finally:
            self.cur_class = saved_cls

    caller_env_stack = []

    def call_external(self, state, cls, name, args, kw, node=None):
        """method of a dependency (depq.DEPQ ...): only its ASSUMED contract is known"""
        con = self.contracts.get((cls, name))
        if con is None:
            self.unsupported("no assumed contract for external %s.%s" % (cls, name), node)
        order = list(con.params.keys())
        names = ["self"] + order
        bound = {}
        if len(args) > len(names):
            self.oblige(state, False, "arity", node, "%s.%s() takes %d arguments" % (cls, name, len(names)))
        for n, v in zip(names, args):
            bound[n] = v
        for k, v in kw.items():
            if k not in names:
                self.oblige(state, False, "arity", node, "%s.%s() unexpected keyword %s" % (cls, name, k))
                continue
            bound[k] = v
        for n in order:
            if n not in bound:
                d = getattr(con, "defaults", {}).get(n, "$missing")
                if d == "$missing":
                    self.oblige(state, False, "arity", node, "%s.%s() missing argument %s" % (cls, name, n))
                    d = None
                bound[n] = d
        self.trace_calls.append(((cls, name), getattr(node, "lineno", 0)))
        return self.apply_contract(state, con, bound, node)

    def call_seq_method(self, state, f, args, kw, node=None):
        ref = f.recv
        if f.name == "append":
            n = self.vec_len(state, ref)
            self.check_frame(state, ("elems", ref.e, None), node)
            self.check_frame(state, ("len", ref.e, None), node)
            key, a = self.elem_heap(state, self.seq_family(ref))
            sort = RealS if key == "$elemR" else IntS
            v = args[0]
            if ref.cls == "list:?" and isinstance(v, Ref):
                pass
            inner = z3.Store(z3.Select(a, ref.e), n, to_z3(v, sort))
            state.heap[key] = z3.Store(a, ref.e, inner)
            lk = self.len_key(ref)
            state.heap[lk] = z3.Store(self.len_heap(state, lk), ref.e, n + 1)
            return None
        if f.name == "copy":
            return self.vec_copy(state, ref)
        if f.name == "fill":
            self.check_frame(state, ("elems", ref.e, None), node)
            key, a = self.elem_heap(state, self.seq_family(ref))
            sort = RealS if key == "$elemR" else IntS
            state.heap[key] = z3.Store(a, ref.e, z3.K(IntS, to_z3(args[0], sort)))
            return None
        self.unsupported("sequence method .%s" % f.name, node)

    def call_builtin(self, state, name, args, kw, node=None):
        if name in self.builtin_overrides:
            return self.builtin_overrides[name](self, state, args, kw, node)
        if name in self.external_classes:
            cls = self.external_classes[name]
            obj = self.alloc(state, cls)
            if (cls, "__init__") in self.contracts:
                self.call_external(state, cls, "__init__", [obj] + args, kw, node)
            return obj
        if name.startswith("spec:"):
            return self.spec_funcs[name[5:]](self, state, *args)
        if name in ("datetime.datetime.now", "datetime.now", "time.time"):
            return Opaque("clock")
        if name.startswith("opaque:"):
            return self.fresh("opaque_" + name[7:], RealS)
        if name == "print":
            self.stdout.append((list(state.pc) if state is not None else [], [a for a in args if isinstance(a, str)]))
            return None
        if name == "len":
            v = args[0]
            if isinstance(v, Tuple_):
                return len(v.items)
            if isinstance(v, Ref) and (v.cls or "").startswith(("vec:", "list:")):
                return self.vec_len(state, v)
            if isinstance(v, Ref) and (v.cls, "__len__") in self.contracts:
                return self.call_external(state, v.cls, "__len__", [v], {}, node)
            self.unsupported("len of %r" % (v,), node)
        if name == "range":
            vals = [concrete(a) for a in args]
            if all(isinstance(v, int) for v in vals):
                return Tuple_(list(range(*vals)))
            return ("$range", args)
        if name == "abs":
            return zabs(args[0])
        if name == "min":
            r = args[0]
            for x in args[1:]:
                r = zmin(r, x)
            return r
        if name == "max":
            r = args[0]
            for x in args[1:]:
                r = zmax(r, x)
            return r
        if name in ("float", "numpy.double", "numpy.float64"):
            c = concrete(args[0])
            if c is not None:
                return Fraction(c)
            return to_z3(args[0], RealS)
        if name == "int":
            c = concrete(args[0])
            if c is not None:
                return int(c)          # truncation toward zero
            v = to_z3(args[0])
            if z3.is_int(v):
                return v
            if self.safety:
                self.oblige(state, v >= 0, "int-of-nonnegative", node)
            return z3.ToInt(v)         # floor; equals truncation for v >= 0 (the engine's stated assumption)
        if name == "bool":
            return self.truth(args[0], node)
        if name == "str":
            return "<str>"
        if name == "math.isclose":
            if kw:
                self.unsupported("isclose with tolerances", node)
            return isclose(args[0], args[1])
        if name in ("math.sqrt", "numpy.sqrt"):
            return self.uf_real("sqrt", args[0], node)
        if name in ("math.sin", "numpy.sin", "math.cos", "numpy.cos", "math.exp", "numpy.exp"):
            return self.uf_real(name.split(".")[1], args[0], node)
        if name == "pow":
            a, b = args
            cb = concrete(b)
            if isinstance(cb, int) or (isinstance(cb, Fraction) and cb.denominator == 1):
                n = int(cb)
                if 0 <= n <= 8:
                    s = num_sort(a, 0)
                    r = to_z3(1, s)
                    for _ in range(n):
                        r = r * to_z3(a, s)
                    return r
            return self.hroot_pow(state, a, b, node)
        if name in ("numpy.zeros", "numpy.ones"):
            n = args[0]
            dt = kw.get("dtype", args[1] if len(args) > 1 else None)
            kind = "vec:int" if (isinstance(dt, Builtin) and "int" in dt.name) else "vec:real"
            cn = concrete(n)
            fill = 0 if name.endswith("zeros") else 1
            return self.vec_new(state, kind, length=n, fill=fill)
        if name == "numpy.ndarray":
            shape = kw.get("shape", args[0] if args else None)
            if isinstance(shape, Tuple_):
                shape = shape.items[0]
            dt = kw.get("dtype")
            kind = "vec:int" if (isinstance(dt, Builtin) and dt.name in ("int", "numpy.int32")) else "vec:real"
            return self.vec_new(state, kind, length=shape)
        if name in ("numpy.copy", "numpy.array", "copy.copy"):
            v = args[0]
            if isinstance(v, Ref) and (v.cls or "").startswith(("vec:", "list:")):
                kind = v.cls
                if name.startswith("numpy") and v.cls.startswith("list:"):
                    kind = "vec:real" if self.elem_type(v) in ("real", "int") else v.cls
                return self.vec_copy(state, v, kind)
            self.unsupported("%s of %r" % (name, v), node)
        if name in EXC_PARENTS:
            return ExcVal(name, args[0] if args else None)
        if name == "isinstance":
            self.unsupported("isinstance", node)
        if name in ("numpy.int32", "numpy.int64"):
            return args[0]
        if name == "typing":
            return Builtin("typing")
        self.unsupported("call of %s" % name, node)

    def uf_real(self, fname, x, node=None):
        f = z3.Function("uf_" + fname, RealS, RealS)
        self.used_ufs = getattr(self, "used_ufs", set())
        self.used_ufs.add(fname)
        return f(to_z3(x, RealS))

    def hroot_pow(self, state, a, b, node=None):
        """pow(a, 1.0/N): uninterpreted N-th root with its defining axioms instantiated at this argument."""
        self.unsupported("pow with non-integer exponent (no hroot override installed)", node)

    # ------------------------------------------------------------------ statements
    def exec_block(self, state, stmts):
        """returns list of (state, outcome, value).  NORMAL-outcome states are merged to at most one."""
        cur = state
        abrupt = []
        for st in stmts:
            if cur is None:
                break
            outs = self.exec_stmt(cur, st)
            normals = [s for s, oc, v in outs if oc == Outcome.NORMAL]
            abrupt.extend([(s, oc, v) for s, oc, v in outs if oc != Outcome.NORMAL])
            if not normals:
                cur = None
            elif len(normals) == 1:
                cur = normals[0]
            else:
                cur = merge_states(self.common_prefix(normals), normals)
            if cur is not None and self.active_ghost_after and self.call_depth == 0 and self.spec_mode == 0 and \
                    self.cur_fn_node is not None:
                src = ast.unparse(st)
                for key, gst in self.active_ghost_after.items():
                    if key in src and key not in self.ghost_after_done:
                        self.ghost_after_done.add(key)
                        self.run_ghost(cur, gst, old=self.fn_pre_state)
        res = list(abrupt)
        if cur is not None:
            res.append((cur, Outcome.NORMAL, None))
        return res

    def exec_stmt(self, state, st):
        m = getattr(self, "s_" + type(st).__name__, None)
        if m is None:
            self.unsupported("statement %s" % type(st).__name__, st)
        self.pending_raises, saved_pending = [], self.pending_raises
        self.caller_env_stack.append(state.env)
        try:
            outs = m(state, st)
        finally:
            self.caller_env_stack.pop()
            mine, self.pending_raises = self.pending_raises, saved_pending
        for s2, exc in mine:
            outs.append((s2, Outcome.RAISE, exc))
        # drop states whose path condition is syntactically false
        return [(s, oc, v) for s, oc, v in outs if not any(z3.is_false(p) for p in s.pc)]

    def s_Pass(self, state, st):
        return [(state, Outcome.NORMAL, None)]

    def s_Expr(self, state, st):
        if isinstance(st.value, ast.Constant):
            return [(state, Outcome.NORMAL, None)]
        self.eval(state, st.value)
        return [(state, Outcome.NORMAL, None)]

    def s_AnnAssign(self, state, st):
        if st.value is None:
            return [(state, Outcome.NORMAL, None)]      # bare annotation: never evaluated inside a function
        v = self.eval(state, st.value)
        self.assign_target(state, st.target, v, st)
        return [(state, Outcome.NORMAL, None)]

    def s_Assign(self, state, st):
        v = self.eval(state, st.value)
        for t in st.targets:
            self.assign_target(state, t, v, st)
        return [(state, Outcome.NORMAL, None)]

    def assign_target(self, state, t, v, node=None, ghost=False):
        if isinstance(v, Poison):
            self.unsupported("assignment of unusable value: " + v.why, node)
        if isinstance(t, ast.Name):
            state.env[t.id] = v
        elif isinstance(t, ast.Attribute):
            base = self.eval(state, t.value)
            if isinstance(base, Ref):
                cls = self.spec_class(base)
                # property setter?
                if cls is not None:
                    ci, fn = self.repo.find_method(cls, t.attr + ".setter")
                    if fn is not None:
                        self.call_function(state, ci, t.attr, fn, [base, v], {}, node)
                        return
                self.store(state, base, mangle(self.cur_class, t.attr), v, node, ghost=ghost)
            else:
                self.unsupported("attribute assignment on %r" % (base,), node)
        elif isinstance(t, ast.Subscript):
            base = self.eval(state, t.value)
            idx = self.eval(state, t.slice)
            if isinstance(base, Ref):
                self.vec_set(state, base, idx, v, node, ghost=ghost)
            else:
                self.unsupported("subscript assignment on %r" % (base,), node)
        elif isinstance(t, (ast.Tuple, ast.List)):
            if not isinstance(v, Tuple_) or len(v.items) != len(t.elts):
                self.unsupported("tuple unpacking", node)
            for tt, vv in zip(t.elts, v.items):
                self.assign_target(state, tt, vv, node, ghost=ghost)
        else:
            self.unsupported("assignment target", node)

    def s_AugAssign(self, state, st):
        load = ast.copy_location(ast.fix_missing_locations(self._as_load(st.target)), st)
        cur = self.eval(state, load)
        rhs = self.eval(state, st.value)
        v = self.binop(state, st.op, cur, rhs, st)
        self.assign_target(state, st.target, v, st)
        return [(state, Outcome.NORMAL, None)]

    @staticmethod
    def _as_load(t):
        import copy
        t2 = copy.deepcopy(t)
        for n in ast.walk(t2):
            if hasattr(n, "ctx"):
                n.ctx = ast.Load()
        return t2

    def s_Return(self, state, st):
        v = self.eval(state, st.value) if st.value is not None else None
        return [(state, Outcome.RETURN, v)]

    def s_Raise(self, state, st):
        if st.exc is None:
            self.unsupported("bare raise", st)
        v = self.eval(state, st.exc)
        if isinstance(v, ClassVal):
            v = ExcVal(v.name)
        if isinstance(v, Builtin) and v.name in EXC_PARENTS:
            v = ExcVal(v.name)
        if not isinstance(v, ExcVal):
            self.unsupported("raise of %r" % (v,), st)
        return [(state, Outcome.RAISE, v)]

    def s_Assert(self, state, st):
        """`assert e`: in ghost code a lemma hint (proved here, used afterwards); in executed code AssertionError must be
        unreachable"""
        c = self.truth(self.eval(state, st.test), st)
        self.oblige(state, c, "ghost-assert" if self.spec_mode else "assert", st, ast.unparse(st.test)[:300])
        state.assume(c)
        return [(state, Outcome.NORMAL, None)]

    def s_Break(self, state, st):
        return [(state, Outcome.BREAK, None)]

    def s_Continue(self, state, st):
        return [(state, Outcome.CONTINUE, None)]

    def s_If(self, state, st):
        c = self.truth(self.eval(state, st.test), st)
        cc = concrete(c)
        if cc is not None:
            return self.exec_block(state, st.body if cc else st.orelse)
        zc = simp(to_z3(c, BoolS))
        if z3.is_true(zc):
            return self.exec_block(state, st.body)
        if z3.is_false(zc):
            return self.exec_block(state, st.orelse)
        # feasibility pruning (quantifier-free part of the path condition, short budget): a branch whose condition
        # contradicts the path condition is not executed.  Only `unsat` prunes.
        feas_t = self.feasible(state, zc)
        feas_f = self.feasible(state, z3.Not(zc)) if feas_t else True
        if not feas_t:
            state.add_cond(z3.Not(zc))
            return self.exec_block(state, st.orelse) if st.orelse else [(state, Outcome.NORMAL, None)]
        if not feas_f:
            state.add_cond(zc)
            return self.exec_block(state, st.body)
        s1 = state.fork()
        s1.add_cond(zc)
        s2 = state
        s2.add_cond(z3.Not(zc))
        outs = self.exec_block(s1, st.body) + (self.exec_block(s2, st.orelse) if st.orelse else [(s2, Outcome.NORMAL, None)])
        return outs

    prune = False      # branch-feasibility pruning (enabled per check; costs one short solver call per symbolic branch)

    def feasible(self, state, cond):
        if not self.prune:
            return True
        from .state import _has_quant
        s = z3.Solver()
        s.set("timeout", 300)
        for h in self.axioms:
            if not _has_quant(h):
                s.add(h)
        for h in state.pc:
            if not _has_quant(h):
                s.add(h)
        s.add(cond)
        return s.check() != z3.unsat

    def s_Try(self, state, st):
        if st.finalbody:
            self.unsupported("try/finally", st)
        outs = self.exec_block(state, st.body)
        res = []
        for s, oc, v in outs:
            if oc != Outcome.RAISE:
                if oc == Outcome.NORMAL and st.orelse:
                    res.extend(self.exec_block(s, st.orelse))
                else:
                    res.append((s, oc, v))
                continue
            handled = False
            for h in st.handlers:
                names = []
                if h.type is None:
                    names = ["BaseException"]
                elif isinstance(h.type, ast.Name):
                    names = [h.type.id]
                elif isinstance(h.type, ast.Tuple):
                    names = [e.id for e in h.type.elts if isinstance(e, ast.Name)]
                else:
                    self.unsupported("except clause", h)
                if any(self.exc_matches(v.cls, n) for n in names):
                    if h.name:
                        s.env[h.name] = v
                    res.extend(self.exec_block(s, h.body))
                    handled = True
                    break
                if any(self.exc_may_match(v.cls, n) for n in names):
                    # an exception of unknown class (interface contract "raises any BaseException"): this handler catches
                    # some of them - both outcomes are explored
                    disc = self.fresh("exc_caught", BoolS)
                    s2 = s.fork()
                    s2.add_cond(disc)
                    s.add_cond(z3.Not(disc))
                    if h.name:
                        s2.env[h.name] = v
                    res.extend(self.exec_block(s2, h.body))
            if not handled:
                res.append((s, oc, v))
        return res

    def exc_may_match(self, cls, handler):
        """an exception of an unknown class MAY be caught by a handler for a narrower class"""
        if cls == "$any":
            return handler != "BaseException"
        if cls == "$anyException":
            return handler not in ("BaseException", "Exception", "KeyboardInterrupt", "SystemExit", "GeneratorExit")
        return False

    def exc_matches(self, cls, handler):
        if cls == "$any":
            # "any BaseException subclass" (interface contract of user code): only BaseException catches all
            return handler == "BaseException"
        if cls == "$anyException":
            return handler in ("BaseException", "Exception")
        # repo-defined exception classes
        if cls not in EXC_PARENTS:
            for ci in self.repo.mro(cls):
                if ci.name == handler:
                    return True
                for b in ci.bases:
                    if b in EXC_PARENTS and exc_is_subclass(b, handler):
                        return True
            return False
        return exc_is_subclass(cls, handler)

    # -- loops
    def loop_ordinal(self, node):
        fn = self.cur_fn_node
        if fn is None:
            return None
        ls = loops_of(fn)
        for i, l in enumerate(ls):
            if l is node:
                return i
        return None

    cur_fn_node = None

    def s_For(self, state, st):
        if st.orelse:
            self.unsupported("for/else", st)
        it = self.eval(state, st.iter)
        spec = self.loop_specs.get((self.cur_file, self.cur_qual_for_loops(), self.loop_ordinal(st)))
        if isinstance(it, Tuple_) and (spec is None or spec.unroll):
            return self.unroll(state, st, it.items)
        if isinstance(it, Ref) and (it.cls or "").startswith(("vec:", "list:")) and spec is not None:
            return self.for_list(state, st, it, spec)
        if isinstance(it, Ref) and (it.cls or "").startswith(("vec:", "list:")) and spec is None:
            n = concrete(self.vec_len(state, it))
            if n is None:
                self.unsupported("loop over a sequence of symbolic length needs a loop contract", st)
            return self.unroll(state, st, [self.vec_get(state, it, i) for i in range(n)])
        if isinstance(it, Ref) and self.spec_class(it) is not None and self.repo.cls(self.spec_class(it)) is not None:
            return self.for_iterator(state, st, it, spec)
        if spec is None:
            self.unsupported("loop with symbolic bound needs a sidecar loop contract (%s loop #%s)" %
                             (self.cur_qual_for_loops(), self.loop_ordinal(st)), st)
        return self.loop_with_invariant(state, st, it, spec)

    def cur_qual_for_loops(self):
        return self.cur_func_qual

    cur_func_qual = None

    def unroll(self, state, st, items):
        res = []
        cur = state
        for v in items:
            if cur is None:
                break
            self.assign_target(cur, st.target, v, st)
            outs = self.exec_block(cur, st.body)
            cont = []
            for s, oc, val in outs:
                if oc in (Outcome.NORMAL, Outcome.CONTINUE):
                    cont.append(s)
                elif oc == Outcome.BREAK:
                    res.append((s, Outcome.NORMAL, None))
                else:
                    res.append((s, oc, val))
            if not cont:
                cur = None
            elif len(cont) == 1:
                cur = cont[0]
            else:
                cur = merge_states(self.common_prefix(cont), cont)
        if cur is not None:
            res.append((cur, Outcome.NORMAL, None))
        normals = [s for s, oc, v in res if oc == Outcome.NORMAL]
        if len(normals) > 1:
            m = merge_states(self.common_prefix(normals), normals)
            res = [(s, oc, v) for s, oc, v in res if oc != Outcome.NORMAL] + [(m, Outcome.NORMAL, None)]
        return res

    def assigned_names(self, stmts):
        names = set()
        for st in stmts:
            for n in ast.walk(st):
                if isinstance(n, ast.Name) and isinstance(n.ctx, ast.Store):
                    names.add(n.id)
        return names

    def run_ghost(self, state, stmts, old=None, strict=False):
        for g in stmts:
            if callable(g):
                g(self, state)
                continue
            for stn in ast.parse(g).body:
                if strict:
                    # non-interference: ghost code may only assign ghost locals / ghost fields (names starting with 'g')
                    for n in ast.walk(stn):
                        if isinstance(n, (ast.Name, ast.Attribute, ast.Subscript)) and isinstance(n.ctx, ast.Store):
                            nm = n.id if isinstance(n, ast.Name) else (n.attr if isinstance(n, ast.Attribute) else None)
                            if nm is None or not nm.startswith("g"):
                                raise EngineError("ghost code assigns non-ghost state: %s" % g)
                self.spec_mode += 1
                saved_old, saved_safety = self.old_state, self.safety
                self.safety = False
                if old is not None:
                    self.old_state = old
                try:
                    outs = self.exec_stmt(state, stn)
                finally:
                    self.spec_mode -= 1
                    self.old_state, self.safety = saved_old, saved_safety
                if len(outs) != 1 or outs[0][1] != Outcome.NORMAL:
                    raise EngineError("ghost code must be straight-line: %s" % g)
                if outs[0][0] is not state:
                    state.env, state.heap, state.pc = outs[0][0].env, outs[0][0].heap, outs[0][0].pc

    def loop_with_invariant(self, state, st, it, spec):
        """Standard loop rule (DESIGN 2.4): unbounded in the trip count."""
        if not (isinstance(it, tuple) and it and it[0] == "$range"):
            self.unsupported("invariant-loop over non-range iterable", st)
        rargs = it[1]
        lo, hi = (0, rargs[0]) if len(rargs) == 1 else (rargs[0], rargs[1])
        if len(rargs) > 2:
            self.unsupported("range with step in invariant loop", st)
        if not isinstance(st.target, ast.Name):
            self.unsupported("loop target", st)
        jn = st.target.id
        label = "%s#loop%s" % (self.cur_func_qual, self.loop_ordinal(st))
        self.run_ghost(state, spec.ghost_before, old=self.fn_pre_state)
        zlo, zhi = to_z3(lo, IntS), to_z3(hi, IntS)
        # 1. invariant on entry
        state.env[jn] = lo
        state.env["$lo"], state.env["$hi"] = lo, hi
        entry_snapshot = state.fork()
        for i, inv in enumerate(spec.invariant):
            self.oblige(state, self.eval_spec(state, inv, state.env, entry_snapshot), "inv-entry[%s#%d]" % (label, i),
                        st, str(inv))
        # 2. havoc
        locs = [self.parse_target(state, t, state.env) for t in spec.modifies]
        for loc in locs:
            self.check_frame(state, loc, st)
        written = self.assigned_names(st.body) | {jn}
        for g in list(spec.ghost_body_start) + list(spec.ghost_body_end):
            if isinstance(g, str):
                written |= self.assigned_names(ast.parse(g).body)
        pre_loop = state.fork()
        for loc in locs:
            self.havoc_target(state, loc)
        for n in sorted(written):
            v = state.env.get(n)
            if v is None and n not in state.env:
                continue
            state.env[n] = self.havoc_like(state, n, v)
        j = self.fresh(jn, IntS)
        state.env[jn] = j
        for inv in spec.invariant:
            state.assume(self.eval_spec(state, inv, state.env, pre_loop))
        after = state.fork()
        # 3. body
        body = state
        body.add_cond(z3.And(zlo <= j, j < zhi))
        self.covers.append(("reach-body[%s]" % label, list(self.axioms) + list(body.pc)))
        var0 = self.eval_spec_value(body, spec.variant, body.env) if spec.variant else None
        self.push_frame(locs, simp(pre_loop.abase + pre_loop.nalloc), label)
        body_pre = body.fork()
        try:
            self.run_ghost(body, spec.ghost_body_start)
            outs = self.exec_block(body, st.body)
        finally:
            self.pop_frame()
        self.loop_records[label] = dict(pre=body_pre, posts=[], j=j, node=st, spec=spec, lo=zlo, hi=zhi, jn=jn,
                                        entry=pre_loop, after=after)
        res = []
        for s, oc, val in outs:
            if oc in (Outcome.NORMAL, Outcome.CONTINUE):
                self.run_ghost(s, spec.ghost_body_end)
                s.env[jn] = j + 1
                self.loop_records[label]["posts"].append(s.fork())
                for i, inv in enumerate(spec.invariant):
                    self.oblige(s, self.eval_spec(s, inv, s.env, pre_loop), "inv-step[%s#%d]" % (label, i), st, str(inv))
                if spec.variant:
                    var1 = self.eval_spec_value(s, spec.variant, s.env)
                    self.oblige(s, z3.And(to_z3(var0, IntS) > to_z3(var1, IntS), to_z3(var1, IntS) >= 0),
                                "variant[%s]" % label, st, spec.variant)
            elif oc == Outcome.BREAK:
                res.append((s, Outcome.NORMAL, None))
            else:
                res.append((s, oc, val))
        # 4. after the loop
        after.add_cond(j >= zhi)
        after.assume(zlo <= j)      # with lo <= hi the invariant gives j == hi
        after.env[jn] = Poison("loop variable after an invariant-loop")
        res.append((after, Outcome.NORMAL, None))
        return res

    def havoc_like(self, state, name, v):
        if isinstance(v, Ref):
            r = self.fresh("hv_" + name, IntS)
            state.assume(z3.And(r >= 0, r < state.abase + state.nalloc))
            return Ref(r, v.cls)
        if isinstance(v, ArrVal):
            return ArrVal(self.fresh("hv_" + name, v.arr.sort()), v.elem)
        if isinstance(v, Tuple_):
            return Tuple_([self.havoc_like(state, "%s_%d" % (name, i), x) for i, x in enumerate(v.items)])
        if isinstance(v, bool) or (is_z3(v) and z3.is_bool(v)):
            return self.fresh("hv_" + name, BoolS)
        if isinstance(v, int) or (is_z3(v) and z3.is_int(v)):
            return self.fresh("hv_" + name, IntS)
        if isinstance(v, Fraction) or (is_z3(v) and z3.is_real(v)):
            return self.fresh("hv_" + name, RealS)
        if v is None:
            return Poison("havoc of a variable that was None before the loop")
        if isinstance(v, Poison):
            return v
        return Poison("havoc of %r" % (v,))

    def s_While(self, state, st):
        if st.orelse:
            self.unsupported("while/else", st)
        spec = self.loop_specs.get((self.cur_file, self.cur_qual_for_loops(), self.loop_ordinal(st)))
        if spec is None:
            self.unsupported("while loop needs a sidecar loop contract (%s loop #%s)" %
                             (self.cur_qual_for_loops(), self.loop_ordinal(st)), st)

        def head(s):
            c = self.truth(self.eval(s, st.test), st)
            cc = concrete(c)
            if cc is not None:
                return [(s, "enter" if cc else "exit")]
            zc = to_z3(c, BoolS)
            s_exit = s.fork()
            s.add_cond(zc)
            s_exit.add_cond(z3.Not(zc))
            return [(s, "enter"), (s_exit, "exit")]
        return self.loop_generic(state, st, spec, head, set())

    def for_iterator(self, state, st, it, spec):
        """`for x in obj` over an object implementing __iter__/__next__ (CPython protocol): iter(obj) once, then
        next() at every loop head; StopIteration raised by next() ends the loop, StopIteration (or anything else)
        raised by iter() propagates."""
        cls = self.spec_class(it)
        ci, fn = self.repo.find_method(cls, "__iter__")
        if fn is None:
            self.unsupported("for-loop over an object without __iter__", st)
        itobj = self.invoke(state, ci, "__iter__", fn, [it], {}, st, recv_cls=cls)
        if not isinstance(itobj, Ref):
            self.unsupported("__iter__ did not return an object", st)
        icls = self.spec_class(itobj)
        ci2, fn2 = self.repo.find_method(icls, "__next__")
        if fn2 is None:
            self.unsupported("iterator without __next__", st)
        if spec is None:
            self.unsupported("loop over an iterator needs a sidecar loop contract (%s loop #%s)" %
                             (self.cur_qual_for_loops(), self.loop_ordinal(st)), st)

        def head(s):
            saved, self.pending_raises = self.pending_raises, []
            try:
                v = self.invoke(s, ci2, "__next__", fn2, [itobj], {}, st, recv_cls=icls)
            finally:
                mine, self.pending_raises = self.pending_raises, saved
            outs = []
            for s2, exc in mine:
                if exc.cls == "StopIteration":
                    outs.append((s2, "exit"))
                else:
                    self.pending_raises.append((s2, exc))
            if not isinstance(v, Poison):
                self.assign_target(s, st.target, v, st)
                outs.append((s, "enter"))
            return outs
        tnames = {n.id for n in ast.walk(st.target) if isinstance(n, ast.Name)}
        return self.loop_generic(state, st, spec, head, tnames)

    def for_list(self, state, st, it, spec):
        """`for x in lst` over a list of symbolic length: index loop with the ghost index `gli` (0-based position of the
        next element); the list must not be written by the body (its elements are re-read at every head)."""
        state.env["gli"] = 0

        def head(s):
            i = s.env["gli"]
            n = self.vec_len(s, it)
            c = to_z3(i, IntS) < to_z3(n, IntS)
            cc = concrete(c)
            if cc is not None:
                if not cc:
                    return [(s, "exit")]
                self.assign_target(s, st.target, self.vec_get(s, it, i, st), st)
                s.env["gli"] = i + 1
                return [(s, "enter")]
            s_exit = s.fork()
            s.add_cond(c)
            s_exit.add_cond(z3.Not(c))
            self.assign_target(s, st.target, self.vec_get(s, it, i, st), st)
            s.env["gli"] = i + 1
            return [(s, "enter"), (s_exit, "exit")]
        tnames = {n.id for n in ast.walk(st.target) if isinstance(n, ast.Name)} | {"gli"}
        return self.loop_generic(state, st, spec, head, tnames)

    def loop_generic(self, state, st, spec, head, target_names):
        """Loop rule for loops whose head has side effects (while-test with calls, iterator protocol):
        invariant holds before every evaluation of the head; head(s) -> [(state, 'enter'|'exit')]."""
        label = "%s#loop%s" % (self.cur_func_qual, self.loop_ordinal(st))
        self.run_ghost(state, spec.ghost_before, old=self.fn_pre_state)
        entry_snapshot = state.fork()
        proved = []
        for i, inv in enumerate(spec.invariant):
            g = self.eval_spec(state, inv, state.env, entry_snapshot)
            self.oblige(state, g, "inv-entry[%s#%d]" % (label, i), st, str(inv), extra_hyps=list(proved) if spec.chain else ())
            proved.append(g)
        locs = [self.parse_target(state, t, state.env) for t in spec.modifies]
        for loc in locs:
            self.check_frame(state, loc, st)
        written = self.assigned_names(st.body) | set(target_names)
        for g in list(spec.ghost_body_start) + list(spec.ghost_body_end):
            if isinstance(g, str):
                written |= self.assigned_names(ast.parse(g).body)
        pre_loop = state.fork()
        for loc in locs:
            self.havoc_target(state, loc)
        for n in sorted(written):
            v = state.env.get(n)
            if v is None and n not in state.env:
                continue
            state.env[n] = self.havoc_like(state, n, v)
        for inv in spec.invariant:
            state.assume(self.eval_spec(state, inv, state.env, pre_loop))
        self.covers.append(("reach-head[%s]" % label, list(self.axioms) + list(state.pc)))
        var0 = self.eval_spec_value(state, spec.variant, state.env) if spec.variant else None
        self.push_frame(locs, simp(pre_loop.abase + pre_loop.nalloc), label)
        res = []
        try:
            heads = head(state)
            for s, kind in heads:
                if kind == "exit":
                    res.append((s, Outcome.NORMAL, None))
                    continue
                self.covers.append(("reach-body[%s]" % label, list(self.axioms) + list(s.pc)))
                self.run_ghost(s, spec.ghost_body_start)
                outs = self.exec_block(s, st.body)
                for s2, oc, val in outs:
                    if oc in (Outcome.NORMAL, Outcome.CONTINUE):
                        self.run_ghost(s2, spec.ghost_body_end)
                        proved = []
                        for i, inv in enumerate(spec.invariant):
                            g = self.eval_spec(s2, inv, s2.env, pre_loop)
                            self.oblige(s2, g, "inv-step[%s#%d]" % (label, i), st, str(inv),
                                        extra_hyps=list(proved) if spec.chain else ())
                            proved.append(g)
                        if spec.variant:
                            var1 = self.eval_spec_value(s2, spec.variant, s2.env)
                            self.oblige(s2, z3.And(to_z3(var0, IntS) > to_z3(var1, IntS), to_z3(var1, IntS) >= 0),
                                        "variant[%s]" % label, st, spec.variant)
                    elif oc == Outcome.BREAK:
                        res.append((s2, Outcome.NORMAL, None))
                    else:
                        res.append((s2, oc, val))
        finally:
            self.pop_frame()
        return res

    # ------------------------------------------------------------------ verification of one function
    def verify_function(self, con, extra_assumptions=(), check_frames=True):
        """Generate all obligations for function `con.qual` of file `con.file` against contract `con`."""
        fn = self.repo.func(con.file, con.qual)
        cname = con.cls
        self.cur_file, self.cur_class, self.cur_func = con.file, cname, con.qual
        self.cur_fn_node, self.cur_func_qual = fn, con.qual
        self.verifying = (cname, con.name)
        state = self.new_state()
        env = {}
        for a in fn.args.args:
            n = a.arg
            if n == "self":
                r = z3.Int(self.prefix + "self")
                self.axioms.append(z3.And(r >= 1, r < self.alloc0))
                env[n] = Ref(r, cname)
            else:
                t = con.params.get(n)
                if t is None:
                    self.unsupported("parameter '%s' of %s has no declared type in the contract" % (n, con.qual), fn)
                v = self.typed_param(n, t)
                env[n] = v
        state.env = env
        saved_safety, self.safety = self.safety, False      # configuration / ghost snapshots: not executed code
        try:
            self.run_ghost(state, con.setup)
        finally:
            self.safety = saved_safety
        for rq in con.requires:
            state.assume(self.eval_spec(state, rq, dict(state.env)))
        for a in extra_assumptions:
            state.assume(a)
        self.covers.append(("requires-satisfiable[%s]" % con.qual, list(self.axioms) + list(state.pc)))
        pre = state.fork()
        pre.env = dict(state.env)
        params = dict(state.env)
        if check_frames:
            locs = [self.parse_target(state, t, dict(state.env)) for t in con.modifies]
            self.push_frame(locs, self.alloc0, con.qual)
        self.entry_abase = self.alloc0
        self.pending_raises = []
        self.active_ghost_after, self.ghost_after_done, self.fn_pre_state = con.ghost_after, set(), pre
        try:
            outs = self.exec_block(state, strip_doc(fn.body))
        finally:
            if check_frames:
                self.pop_frame()
        for s2, exc in self.pending_raises:
            outs.append((s2, Outcome.RAISE, exc))
        self.pending_raises = []
        exits = []
        for s, oc, val in outs:
            if oc in (Outcome.NORMAL, Outcome.RETURN):
                if con.ghost_exit:
                    s.env["result"] = val
                    self.run_ghost(s, con.ghost_exit, old=pre, strict=True)
                env2 = dict(s.env)
                env2.update(params)
                env2["result"] = val
                env2["$mark"] = self.alloc0
                proved = []
                for i, p in enumerate(con.ensures):
                    g = self.eval_spec(s, p, env2, pre)
                    # post-conditions are proved in order; earlier ones may be used as lemmas for later ones
                    self.oblige(s, g, "ensures[%d]" % i, fn, str(p), extra_hyps=list(proved) if con.chain else ())
                    proved.append(g)
                exits.append((s, oc, val))
            elif oc == Outcome.RAISE:
                posts = None
                for ecls, ps in con.raises.items():
                    if self.exc_matches(val.cls, ecls) or val.cls == ecls:
                        posts = ps
                        break
                if posts is None:
                    self.oblige(s, False, "no-raise[%s]" % val.cls, fn,
                                "exception %s must be unreachable (contract has no raises clause for it)" % val.cls)
                else:
                    env2 = dict(params)
                    env2["$mark"] = self.alloc0
                    for i, p in enumerate(posts):
                        self.oblige(s, self.eval_spec(s, p, env2, pre), "raises[%s#%d]" % (val.cls, i), fn, str(p))
                exits.append((s, oc, val))
        self.verifying = None
        return exits

    def typed_param(self, n, t):
        if t == "real":
            return z3.Real(self.prefix + n)
        if t in ("int",):
            return z3.Int(self.prefix + n)
        if t == "bool":
            return z3.Bool(self.prefix + n)
        if t.startswith("const:"):
            return eval(t[6:], {"Fraction": Fraction})
        if t.startswith(("seq:", "map:")):
            return ArrVal(z3.Const(self.prefix + n, self.sort_of_type(t)), self.arr_elem(t))
        r = z3.Int(self.prefix + n)
        nullable = t.endswith("?")
        if nullable:
            t = t[:-1]
        self.axioms.append(z3.And(r >= (0 if nullable else 1), r < self.alloc0))
        return self.wrap(r, t)
