"""Outward-rounded, numpy-vectorised interval arithmetic + branch-and-bound: the back end for obligations of the form
  forall x in box:  f(x) >= c      (C10, C18)
where f is the REAL `Calculate` of a benchmark problem executed on interval objects (duck typing; the module's `math`
/ `np` references are replaced by interval-aware shims for the duration of the call - nothing in /repo is edited).

Soundness: every operation returns an interval that contains the exact real result for all real arguments in the
operand intervals; after each floating-point operation the bounds are moved outward by one ulp (nextafter), and
libm functions (sin, cos, exp, sqrt) by ULP_LIBM ulps (trusted-base item T7).
Runs under /venv/bin/python (numpy), no z3."""
import math
import numpy as np

ULP_LIBM = 4
INF = float("inf")


def _dn(a, n=1):
    for _ in range(n):
        a = np.nextafter(a, -INF)
    return a


def _up(a, n=1):
    for _ in range(n):
        a = np.nextafter(a, INF)
    return a


class I:
    """vector of intervals [lo, hi] (numpy float64 arrays of equal shape)"""
    __slots__ = ("lo", "hi")
    __array_priority__ = 1000

    def __init__(self, lo, hi=None):
        self.lo = np.asarray(lo, dtype=np.float64)
        self.hi = self.lo if hi is None else np.asarray(hi, dtype=np.float64)

    @staticmethod
    def lift(x):
        if isinstance(x, I):
            return x
        return I(np.float64(x))

    # -- arithmetic
    def __add__(self, o):
        o = I.lift(o)
        return I(_dn(self.lo + o.lo), _up(self.hi + o.hi))

    __radd__ = __add__

    def __neg__(self):
        return I(-self.hi, -self.lo)

    def __pos__(self):
        return self

    def __sub__(self, o):
        o = I.lift(o)
        return I(_dn(self.lo - o.hi), _up(self.hi - o.lo))

    def __rsub__(self, o):
        return I.lift(o).__sub__(self)

    def __mul__(self, o):
        o = I.lift(o)
        a, b, c, d = self.lo * o.lo, self.lo * o.hi, self.hi * o.lo, self.hi * o.hi
        lo = np.minimum(np.minimum(a, b), np.minimum(c, d))
        hi = np.maximum(np.maximum(a, b), np.maximum(c, d))
        # 0 * inf artefacts
        lo = np.where(np.isnan(lo), -INF, lo)
        hi = np.where(np.isnan(hi), INF, hi)
        return I(_dn(lo), _up(hi))

    __rmul__ = __mul__

    def recip(self):
        ok = (self.lo > 0) | (self.hi < 0)
        with np.errstate(divide="ignore", invalid="ignore"):
            lo = np.where(ok, 1.0 / self.hi, -INF)
            hi = np.where(ok, 1.0 / self.lo, INF)
        return I(_dn(lo), _up(hi))

    def __truediv__(self, o):
        return self * I.lift(o).recip()

    def __rtruediv__(self, o):
        return I.lift(o) * self.recip()

    def sqr(self):
        a, b = self.lo * self.lo, self.hi * self.hi
        hi = np.maximum(a, b)
        lo = np.where((self.lo <= 0) & (self.hi >= 0), 0.0, np.minimum(a, b))
        return I(np.maximum(_dn(lo), 0.0), _up(hi))

    def __pow__(self, n):
        if isinstance(n, float) and n == int(n):
            n = int(n)
        if not isinstance(n, (int, np.integer)) or n < 0:
            raise TypeError("interval power with exponent %r" % (n,))
        if n == 0:
            return I(np.ones_like(self.lo))
        if n == 1:
            return self
        if n % 2 == 0:
            return (self.sqr()) ** (n // 2) if n > 2 else self.sqr()
        return self * (self ** (n - 1))

    def __abs__(self):
        lo = np.where((self.lo <= 0) & (self.hi >= 0), 0.0, np.minimum(np.abs(self.lo), np.abs(self.hi)))
        return I(lo, np.maximum(np.abs(self.lo), np.abs(self.hi)))

    def __float__(self):
        raise TypeError("an interval is not a float (unsupported operation in the interval evaluation)")

    def __bool__(self):
        raise TypeError("branch on an interval value")

    def _cmp(self, *a):
        raise TypeError("comparison of interval values (data-dependent branch in the evaluated code)")

    __lt__ = __le__ = __gt__ = __ge__ = _cmp

    def width(self):
        return self.hi - self.lo


TWO_PI_LO, TWO_PI_HI = np.nextafter(2 * math.pi, 0), np.nextafter(2 * math.pi, 10)


def _contains_shifted(lo, hi, phase):
    """does [lo, hi] contain a point  phase + 2*pi*k  (k integer)?  Conservative (may answer True when merely close)."""
    k = np.ceil((lo - phase) / (2 * math.pi) - 1e-9)
    x = phase + k * (2 * math.pi)
    tol = 1e-9 * (1.0 + np.abs(x))
    return x <= hi + tol


def isin(x):
    x = I.lift(x)
    a, b = np.sin(x.lo), np.sin(x.hi)
    lo, hi = _dn(np.minimum(a, b), ULP_LIBM), _up(np.maximum(a, b), ULP_LIBM)
    wide = (x.hi - x.lo) >= 6.2
    hi = np.where(wide | _contains_shifted(x.lo, x.hi, math.pi / 2), 1.0, np.minimum(hi, 1.0))
    lo = np.where(wide | _contains_shifted(x.lo, x.hi, -math.pi / 2), -1.0, np.maximum(lo, -1.0))
    return I(lo, hi)


def icos(x):
    x = I.lift(x)
    a, b = np.cos(x.lo), np.cos(x.hi)
    lo, hi = _dn(np.minimum(a, b), ULP_LIBM), _up(np.maximum(a, b), ULP_LIBM)
    wide = (x.hi - x.lo) >= 6.2
    hi = np.where(wide | _contains_shifted(x.lo, x.hi, 0.0), 1.0, np.minimum(hi, 1.0))
    lo = np.where(wide | _contains_shifted(x.lo, x.hi, math.pi), -1.0, np.maximum(lo, -1.0))
    return I(lo, hi)


def iexp(x):
    x = I.lift(x)
    with np.errstate(over="ignore"):
        return I(np.maximum(_dn(np.exp(x.lo), ULP_LIBM), 0.0), _up(np.exp(x.hi), ULP_LIBM))


def isqrt(x):
    x = I.lift(x)
    lo = np.sqrt(np.maximum(x.lo, 0.0))
    hi = np.sqrt(np.maximum(x.hi, 0.0))
    return I(np.maximum(_dn(lo, ULP_LIBM), 0.0), _up(hi, ULP_LIBM))


class MathShim:
    """stands in for the `math` module inside a problem module while its Calculate runs on intervals"""
    pi = math.pi
    e = math.e

    @staticmethod
    def sin(x):
        return isin(x) if isinstance(x, I) else math.sin(x)

    @staticmethod
    def cos(x):
        return icos(x) if isinstance(x, I) else math.cos(x)

    @staticmethod
    def exp(x):
        return iexp(x) if isinstance(x, I) else math.exp(x)

    @staticmethod
    def sqrt(x):
        return isqrt(x) if isinstance(x, I) else math.sqrt(x)

    @staticmethod
    def pow(x, n):
        return x ** n

    @staticmethod
    def fabs(x):
        return abs(x)


class NumpyShim:
    """stands in for `np` inside a problem module: arrays that receive intervals become object arrays;
    np.double(x) is the identity on intervals"""

    def __init__(self):
        self.pi = math.pi

    def __getattr__(self, name):
        return getattr(np, name)

    @staticmethod
    def ndarray(shape=None, dtype=None, **kw):
        return np.empty(shape, dtype=object)

    @staticmethod
    def double(x):
        return x if isinstance(x, I) else np.double(x)

    float64 = double

    @staticmethod
    def sqrt(x):
        return isqrt(x) if isinstance(x, I) else np.sqrt(x)

    @staticmethod
    def sin(x):
        return isin(x) if isinstance(x, I) else np.sin(x)

    @staticmethod
    def cos(x):
        return icos(x) if isinstance(x, I) else np.cos(x)

    @staticmethod
    def exp(x):
        return iexp(x) if isinstance(x, I) else np.exp(x)


class shimmed:
    """context manager: replace `math` / `np` in the given modules by the interval-aware shims"""

    def __init__(self, *modules):
        self.modules = modules
        self.saved = []

    def __enter__(self):
        for m in self.modules:
            for name, shim in (("math", MathShim), ("np", NumpyShim())):
                if hasattr(m, name):
                    self.saved.append((m, name, getattr(m, name)))
                    setattr(m, name, shim)
        return self

    def __exit__(self, *a):
        for m, name, v in self.saved:
            setattr(m, name, v)
        return False


def lower_bound_proof(feval, lo, hi, bound, max_boxes=400000, min_width=1e-9, exclude=None, chunk=4096, constraints=None):
    """Branch and bound proof of   forall x in [lo,hi] (outside `exclude`):  f(x) >= bound.
    feval(list of I per coordinate) -> I of values for a batch of boxes.
    exclude: optional (centre, radius): boxes entirely inside the max-norm ball are skipped.
    returns dict(status='proved'|'witness'|'undecided', boxes=n, witness=point or None, min_lb=...)"""
    dim = len(lo)
    boxes_lo = np.array([lo], dtype=np.float64)
    boxes_hi = np.array([hi], dtype=np.float64)
    total = 0
    min_lb = INF
    while len(boxes_lo):
        total += len(boxes_lo)
        if total > max_boxes:
            return dict(status="undecided", boxes=total, witness=None, min_lb=float(min_lb), reason="box budget")
        nxt_lo, nxt_hi = [], []
        for s in range(0, len(boxes_lo), chunk):
            bl, bh = boxes_lo[s:s + chunk], boxes_hi[s:s + chunk]
            if exclude is not None:
                c, r = np.asarray(exclude[0]), exclude[1]
                inside = np.all((bl >= c - r) & (bh <= c + r), axis=1)
                bl, bh = bl[~inside], bh[~inside]
                if not len(bl):
                    continue
            if constraints:
                # feasible set {g_k <= 0}: a box on which some constraint is provably positive contains no feasible point
                infeas = np.zeros(len(bl), dtype=bool)
                for g in constraints:
                    gv = g([I(bl[:, j], bh[:, j]) for j in range(dim)])
                    infeas |= np.broadcast_to(gv.lo, (len(bl),)) > 0
                bl, bh = bl[~infeas], bh[~infeas]
                if not len(bl):
                    continue
            v = feval([I(bl[:, j], bh[:, j]) for j in range(dim)])
            vlo = np.broadcast_to(v.lo, (len(bl),))
            ok = vlo >= bound
            if np.any(ok):
                min_lb = min(min_lb, float(np.min(vlo[ok])))
            bad = ~ok
            if not np.any(bad):
                continue
            bl, bh = bl[bad], bh[bad]
            # a box that cannot be proved: test its midpoint for a genuine violation
            mid = (bl + bh) / 2
            vm = feval([I(mid[:, j]) for j in range(dim)])
            vmhi = np.broadcast_to(vm.hi, (len(bl),))
            if exclude is not None:
                out = np.any(np.abs(mid - c) > r, axis=1)
            else:
                out = np.ones(len(bl), dtype=bool)
            if constraints:
                for g in constraints:
                    gm = g([I(mid[:, j]) for j in range(dim)])
                    out = out & (np.broadcast_to(gm.hi, (len(bl),)) <= 0)
            w = np.where((vmhi < bound) & out)[0]
            if len(w):
                k = int(w[0])
                return dict(status="witness", boxes=total, witness=[float(t) for t in mid[k]], value=float(vmhi[k]),
                            min_lb=float(min_lb))
            width = bh - bl
            if np.any(np.max(width, axis=1) < min_width):
                return dict(status="undecided", boxes=total, witness=None, min_lb=float(min_lb), reason="width limit")
            ax = np.argmax(width, axis=1)
            rows = np.arange(len(bl))
            m = mid[rows, ax]
            l1, h1 = bl.copy(), bh.copy()
            h1[rows, ax] = m
            l2, h2 = bl.copy(), bh.copy()
            l2[rows, ax] = m
            nxt_lo += [l1, l2]
            nxt_hi += [h1, h2]
        if nxt_lo:
            boxes_lo, boxes_hi = np.concatenate(nxt_lo), np.concatenate(nxt_hi)
        else:
            break
    return dict(status="proved", boxes=total, witness=None, min_lb=float(min_lb))


# ----------------------------------------------------------------------------- forward-mode AD over intervals (C18: f')
class D:
    """dual number (value, derivative), both interval vectors: running the real Calculate on D objects yields an
    enclosure of f and of f' over the box (1-D input)"""
    __slots__ = ("v", "d")

    def __init__(self, v, d=None):
        self.v = I.lift(v)
        self.d = I.lift(0.0) if d is None else I.lift(d)

    @staticmethod
    def lift(x):
        return x if isinstance(x, D) else D(x)

    def __add__(self, o):
        o = D.lift(o)
        return D(self.v + o.v, self.d + o.d)

    __radd__ = __add__

    def __neg__(self):
        return D(-self.v, -self.d)

    def __sub__(self, o):
        o = D.lift(o)
        return D(self.v - o.v, self.d - o.d)

    def __rsub__(self, o):
        return D.lift(o).__sub__(self)

    def __mul__(self, o):
        o = D.lift(o)
        return D(self.v * o.v, self.d * o.v + self.v * o.d)

    __rmul__ = __mul__

    def __truediv__(self, o):
        o = D.lift(o)
        r = o.v.recip()
        return D(self.v * r, (self.d * o.v - self.v * o.d) * r * r)

    def __rtruediv__(self, o):
        return D.lift(o).__truediv__(self)

    def __pow__(self, n):
        if isinstance(n, float) and n == int(n):
            n = int(n)
        if not isinstance(n, (int, np.integer)) or n < 0:
            raise TypeError("dual power")
        if n == 0:
            return D(1.0)
        return D(self.v ** n, (self.v ** (n - 1)) * float(n) * self.d)

    def __float__(self):
        raise TypeError("a dual number is not a float")

    def __bool__(self):
        raise TypeError("branch on a dual value")


def _wrap(fi, dfi):
    def f(x):
        if isinstance(x, D):
            return D(fi(x.v), dfi(x.v) * x.d)
        if isinstance(x, I):
            return fi(x)
        return None
    return f


_dsin = _wrap(isin, icos)
_dcos = _wrap(icos, lambda v: -isin(v))
_dexp = _wrap(iexp, iexp)
for _n, _f, _m in (("sin", _dsin, math.sin), ("cos", _dcos, math.cos), ("exp", _dexp, math.exp)):
    def _mk(f, m):
        def g(x):
            r = f(x)
            return m(x) if r is None else r
        return staticmethod(g)
    setattr(MathShim, _n, _mk(_f, _m))


# ----------------------------------------------------------------------------- data-dependent branches (GKLS)
class Ambiguous(Exception):
    pass


class Decisions:
    """Scalar interval evaluation of code with data-dependent branches: a comparison that is not decided by the
    operand intervals takes its outcome from a prescribed decision list; the driver explores both outcomes and
    returns the hull of the results (every real point of the box follows one of the explored paths)."""
    active = None

    def __init__(self, forced):
        self.forced, self.k = list(forced), 0

    def decide(self):
        if self.k < len(self.forced):
            v = self.forced[self.k]
            self.k += 1
            return v
        raise Ambiguous()


def _cmp_factory(op):
    def f(self, o):
        o = I.lift(o)
        if op == "lt":
            t, fl = np.all(self.hi < o.lo), np.all(self.lo >= o.hi)
        elif op == "le":
            t, fl = np.all(self.hi <= o.lo), np.all(self.lo > o.hi)
        elif op == "gt":
            t, fl = np.all(self.lo > o.hi), np.all(self.hi <= o.lo)
        else:
            t, fl = np.all(self.lo >= o.hi), np.all(self.hi < o.lo)
        if t:
            return True
        if fl:
            return False
        if Decisions.active is None:
            raise TypeError("comparison of interval values (data-dependent branch in the evaluated code)")
        return Decisions.active.decide()
    return f


I.__lt__, I.__le__, I.__gt__, I.__ge__ = _cmp_factory("lt"), _cmp_factory("le"), _cmp_factory("gt"), _cmp_factory("ge")


def eval_all_paths(fn, max_paths=64):
    """fn() evaluated under every resolution of its undecided comparisons; returns (lo, hi) hull of the results"""
    lo, hi = INF, -INF
    stack = [[]]
    n = 0
    while stack:
        forced = stack.pop()
        n += 1
        if n > max_paths:
            raise Ambiguous()
        Decisions.active = Decisions(forced)
        try:
            r = fn()
        except Ambiguous:
            stack.append(forced + [True])
            stack.append(forced + [False])
            continue
        finally:
            Decisions.active = None
        r = I.lift(r)
        lo, hi = min(lo, float(np.min(r.lo))), max(hi, float(np.max(r.hi)))
    return lo, hi
