#!/bin/sh
# development aid: detection matrix  tools/matrix.sh "<patchdirs...>" "<pids...>"  (dirs contain patch.diff)
for d in $1; do
  for p in $2; do
    out=$(/verif/tools/try_patch.sh $d/patch.diff $p 2>&1)
    v=$(echo "$out" | grep -c "^VIOLATION")
    nf=$(echo "$out" | grep -c "no-failing-input-found")
    ex=$(echo "$out" | grep -o "exit [0-9]" | tail -1)
    echo "$(basename $d) $p violations=$v (without-input=$nf) $ex"
  done
done
