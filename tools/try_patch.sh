#!/bin/sh
# development aid: run checks against a scratch copy of /repo with a patch applied (never touches /repo)
#   tools/try_patch.sh <patch.diff|none> [--rev <git rev>] C07 C08 ...
set -e
patch="$1"; shift
rev=HEAD
if [ "$1" = "--rev" ]; then rev="$2"; shift; shift; fi
d=$(mktemp -d /tmp/mut/try.XXXXXX)
git -C /repo archive "$rev" | tar -x -C "$d"
if [ "$patch" != "none" ]; then (cd "$d" && git init -q . && git apply "$patch"); fi
cd /verif
for p in "$@"; do
  PYVC_REPO="$d" PYVC_NOEVIDENCE=1 ./check "$p" --tier "${TIER:-quick}" 2>&1 | grep -E "VIOLATION|KNOWN|UNDECIDED|ENGINE|exit|Traceback|Error" | cut -c1-400 || true
done
rm -rf "$d"
