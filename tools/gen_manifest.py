#!/usr/bin/env python3
"""Regenerate /verif/MANIFEST.json from props/registry.py (+ props/claims.py)."""
import json, os, sys
HERE = os.path.dirname(os.path.dirname(os.path.abspath(__file__)))
sys.path.insert(0, HERE)
from props import registry
try:
    from props import claims  # noqa: F401  (fills registry.CLAIMED)
except ImportError:
    pass

BASELINE_CMD = ("cd /repo && /venv/bin/python -m pytest -ra -q -p no:cacheprovider --timeout=900 "
                "--continue-on-collection-errors")

ids = [json.loads(l)["id"] for l in open(os.path.join(HERE, "properties.jsonl"))]
checks = []
for pid in ids:
    c = registry.CLAIMED.get(pid)
    if not c:
        continue
    checks.append({
        "property_id": pid,
        "quick_cmd": "./check %s --tier quick" % pid,
        "thorough_cmd": "./check %s --tier thorough" % pid,
        "evidence_file": "/verif/evidence/%s.json" % pid,
        "replay_cmd_template": "./check %s --replay {path}" % pid,
        "engine": "pyvc",
        "level_claimed": {"category": c["category"], "text": c["text"], "design_ref": c.get("design_ref", "DESIGN.md section 5")},
        "level_note": c["note"],
        "technique": c["technique"],
    })
na = [{"property_id": pid, "reason": registry.NOT_APPLICABLE[pid]} for pid in ids if pid not in registry.CLAIMED]
man = {
    "version": 1,
    "setup_cmd": "python3-vt -m pyvc.selfcheck && python3-vt -m pyvc.enginetest",
    "hooks": {
        "guard": "IOPT_VERIF",
        "enable": "none needed: contracts are sidecar files under /verif/contracts, the verifier re-parses /repo's "
                  "working tree on every run; no instrumentation is compiled into iOpt",
        "baseline_off_cmd": BASELINE_CMD,
        "source_commits": [],
        "add_only": True,
    },
    "engines": [{
        "name": "pyvc",
        "path": "/verif/pyvc",
        "serves_properties": [c["property_id"] for c in checks],
        "kind_free_text": "own deductive verifier for a Python subset: ast -> symbolic execution with state merging -> "
                          "verification conditions from sidecar contracts -> z3 5.1 (cvc5 second opinion); interval "
                          "branch-and-bound and exhaustive finite-family enumeration as further back ends; native replay "
                          "of counter-models under /venv/bin/python",
    }],
    "checks": checks,
    "not_applicable": na,
    "notes": "Contract-based deductive verification of the real code (DESIGN.md). Exit codes of ./check: 0 held, "
             "1 VIOLATION, 2 undecided, 3 engine error.",
}
json.dump(man, open(os.path.join(HERE, "MANIFEST.json"), "w"), indent=1)
print("MANIFEST.json: %d checks, %d not_applicable" % (len(checks), len(na)))
