#!/bin/sh
# development aid: run every kept seeded change (seeded/<name>/patch.diff) against the check of the property it breaks,
# on a scratch copy of /repo (never touches /repo); results -> seeded/RESULTS.txt
#   tools/run_seeded.sh [name ...]
cd /verif
names="$@"
[ -z "$names" ] && names=$(ls seeded | grep -v RESULTS)
for n in $names; do
  [ -f seeded/$n/patch.diff ] || continue
  pid=$(python3 -c "import json;print(json.load(open('seeded/$n/meta.json'))['breaks_property'])")
  out=$(tools/try_patch.sh /verif/seeded/$n/patch.diff $pid 2>&1 | grep -E "VIOLATION|quick:|thorough:" | tail -3 | tr '\n' ' ' | cut -c1-400)
  echo "$n -> $pid : $out"
done
