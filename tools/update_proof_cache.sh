#!/bin/sh
# development aid: merge the run-time memo of proved queries (.work/proved/) into the committed proof_cache.txt
cd /verif
{ grep -v '^#' proof_cache.txt 2>/dev/null; find .work/proved -type f -printf '%f\n' 2>/dev/null; } | sort -u > proof_cache.tmp
{ echo "# sha256 of SMT-LIB2 queries answered unsat by z3 (see pyvc/discharge.py:_committed); regenerate: tools/update_proof_cache.sh"; cat proof_cache.tmp; } > proof_cache.txt
rm -f proof_cache.tmp
wc -l proof_cache.txt
