#!/bin/sh
# confirm a seeded change produced by a sub-agent and file it under /verif/seeded/<name>/
#   tools/confirm_seeded.sh <srcdir with patch.diff demo.py notes.md> <name> <property id>
src="$1"; name="$2"; pid="$3"
wt=/tmp/wt/confirm_$name
git -C /repo worktree add -q --detach "$wt" HEAD || exit 2
cd "$wt"
res_apply=fail; res_tests=fail; res_demo_patched=unexpected; res_demo_clean=unexpected
if git apply "$src/patch.diff"; then res_apply=ok; fi
if /venv/bin/python -m pytest -q -p no:cacheprovider --timeout=900 -x >/tmp/wt/confirm_$name.pytest.log 2>&1; then res_tests="pass ($(tail -1 /tmp/wt/confirm_$name.pytest.log))"; fi
cp "$src/demo.py" ./demo_seed.py
if /venv/bin/python demo_seed.py >/tmp/wt/confirm_$name.demo1.log 2>&1; then res_demo_patched="PASS(unexpected)"; else res_demo_patched="FAIL(expected)"; fi
git checkout -q -- . 
if /venv/bin/python demo_seed.py >/tmp/wt/confirm_$name.demo2.log 2>&1; then res_demo_clean="PASS(expected)"; else res_demo_clean="FAIL(unexpected)"; fi
rm -f demo_seed.py
cd /verif
git -C /repo worktree remove --force "$wt"
mkdir -p /verif/seeded/$name
cp "$src/patch.diff" "$src/demo.py" /verif/seeded/$name/
[ -f "$src/notes.md" ] && cp "$src/notes.md" /verif/seeded/$name/
python3 - "$name" "$pid" "$res_apply" "$res_tests" "$res_demo_patched" "$res_demo_clean" <<'PY'
import json, sys, os
name, pid, a, t, d1, d2 = sys.argv[1:7]
notes = ""
p = "/verif/seeded/%s/notes.md" % name
if os.path.exists(p):
    notes = open(p).read()[:1500]
meta = {"name": name, "breaks_property": pid, "origin": "independent sub-agent given only the property text and a scratch worktree",
        "needs_to_manifest": notes,
        "confirmed": {"patch_applies": a, "existing_test_suite_with_patch": t, "demo_with_patch": d1, "demo_without_patch": d2,
                      "how": "git worktree of /repo HEAD under /tmp, git apply, pytest, demo.py, git checkout, demo.py; worktree removed"},
        "kept": a == "ok" and t.startswith("pass") and d1.startswith("FAIL") and d2.startswith("PASS")}
json.dump(meta, open("/verif/seeded/%s/meta.json" % name, "w"), indent=1)
print(name, meta["confirmed"], "KEPT" if meta["kept"] else "REJECTED")
PY
