"""Native replay oracle for C19: random operation histories on the REAL SearchData / SearchDataDualQueue /
CharacteristicsQueue (PYTHONPATH = repo under test) compared with an independent list model.
stdin: {"seed": int, "n": number of histories}; stdout (last line): {"failures": [...], "histories": n}
Only used to replay a failed / undecided obligation on the real code; never a proof."""
import sys, json, random
from iOpt.method.search_data import SearchData, SearchDataDualQueue, SearchDataItem, CharacteristicsQueue
from iOpt.trial import Point


def mk(x, g=0.0, l=0.0):
    it = SearchDataItem(Point([x], []), x)
    it.globalR, it.localR = g, l
    return it


def traverse(sd):
    out = []
    for it in sd:
        out.append(it)
        if len(out) > 100000:
            break
    return out


def check_struct(sd, model, hist, fails, what, queues=None):
    """model: items sorted as the container must list them"""
    try:
        seq = traverse(sd)
    except Exception as e:
        fails.append(dict(what=what + ": traversal raised %r" % (e,), history=hist))
        return False
    if [id(a) for a in seq] != [id(a) for a in model]:
        fails.append(dict(what=what + ": traversal order differs from the ordered-set model",
                          observed=[a.GetX() for a in seq], expected=[a.GetX() for a in model], history=hist))
        return False
    for i, a in enumerate(seq):
        l = seq[i - 1] if i > 0 else None
        r = seq[i + 1] if i + 1 < len(seq) else None
        if a.GetLeft() is not l or a.GetRight() is not r:
            fails.append(dict(what=what + ": neighbour links inconsistent at position %d" % i, history=hist))
            return False
    if queues is not None:
        gq, lq = queues
        n1 = sd._RGlobalQueue.GetLen()
        if n1 != len(gq):
            fails.append(dict(what=what + ": global queue holds %d entries, %d expected" % (n1, len(gq)), history=hist))
            return False
        loc = getattr(sd, "_SearchDataDualQueue__RLocalQueue", None)
        if loc is not None and loc.GetLen() != len(lq):
            fails.append(dict(what=what + ": local queue holds %d entries, %d expected" % (loc.GetLen(), len(lq)), history=hist))
            return False
    if sd.GetCount() != len(model):
        fails.append(dict(what=what + ": GetCount()=%d, %d items inserted" % (sd.GetCount(), len(model)), history=hist))
        return False
    return True


def history(rnd, dual, fails):
    cls = SearchDataDualQueue if dual else SearchData
    sd = cls(None)
    hist = [("new", cls.__name__)]
    xs = sorted(rnd.sample(range(0, 1000), 2))
    a, b = mk(xs[0] / 1000.0, rnd.choice([-1.0, 0.0, 2.5, float("-inf")]), rnd.random()), mk(xs[1] / 1000.0, rnd.random(), rnd.random())
    sd.InsertFirstDataItem(a, b)
    hist.append(("first", a.GetX(), b.GetX()))
    model = [a, b]
    queue = []          # entries (priority, serial, item) of the global queue model
    lqueue = []
    serial = [0]

    def qins(q, p, it):
        serial[0] += 1
        q.append((p, serial[0], it))
    for step in range(rnd.randint(1, 14)):
        op = rnd.choice(["hint", "hint", "nohint", "nohint", "find", "best", "refill", "clear", "bestl" if dual else "best", "touch"])
        if op == "hint":
            k = rnd.randint(1, len(model) - 1)
            lo, hi = model[k - 1].GetX(), model[k].GetX()
            x = rnd.choice([lo, hi, (lo + hi) / 2, lo + (hi - lo) * rnd.random()])
            it = mk(x, rnd.choice([rnd.random(), 1.0, 0.5]), rnd.choice([rnd.random(), 1.0]))
            right = model[k]
            sd.InsertDataItem(it, right)
            hist.append(("hint", x, right.GetX()))
            model.insert(k, it)
            qins(queue, it.globalR, it); qins(queue, right.globalR, right)
            qins(lqueue, it.localR, it); qins(lqueue, right.localR, right)
        elif op == "nohint":
            lo, hi = model[0].GetX(), model[-1].GetX()
            if not lo < hi:
                continue
            x = rnd.choice([lo, (lo + hi) / 2, lo + (hi - lo) * rnd.random(), rnd.choice(model[:-1]).GetX()])
            if not (lo <= x < hi):
                continue
            it = mk(x, rnd.choice([rnd.random(), 1.0]), rnd.random())
            sd.InsertDataItem(it)
            hist.append(("nohint", x))
            k = next(i for i, m in enumerate(model) if m.GetX() > x)
            model.insert(k, it)
            qins(queue, it.globalR, it); qins(lqueue, it.localR, it)
        elif op == "find":
            q = rnd.choice([rnd.random(), rnd.choice(model).GetX(), -0.5, 1.5])
            got = sd.FindDataItemByOneDimensionalPoint(q)
            exp = next((m for m in model if m.GetX() > q), None)
            hist.append(("find", q))
            if got is not exp:
                fails.append(dict(what="covering-interval lookup did not return the first item to the right of the query",
                                  query=q, observed=None if got is None else got.GetX(),
                                  expected=None if exp is None else exp.GetX(), history=hist))
                return
        elif op in ("best", "bestl"):
            loc = op == "bestl"
            q = lqueue if loc else queue
            attr = "localR" if loc else "globalR"
            if dual:
                # entries whose characteristic is no longer current are skipped
                cur = [e for e in q if e[0] == getattr(e[2], attr)]
                if not cur:
                    q[:] = []
                    queue[:] = []; lqueue[:] = []
                    for m in model:
                        qins(queue, m.globalR, m); qins(lqueue, m.localR, m)
                    cur = list(q)
            else:
                if not q:
                    for m in model:
                        qins(queue, m.globalR, m)
                cur = list(q)
            got = sd.GetDataItemWithMaxLocalR() if loc else sd.GetDataItemWithMaxGlobalR()
            hist.append((op,))
            best = max(e[0] for e in cur)
            if not any(e[2] is got and e[0] == best for e in cur):
                fails.append(dict(what="best-interval request returned an item whose queued characteristic is not maximal",
                                  observed=getattr(got, attr), expected=best, history=hist))
                return
            # remove the popped entry (and, in the dual variant, the stale entries popped before it)
            if dual:
                ordered = sorted(q, key=lambda e: (-e[0], e[1]))
                while ordered:
                    e = ordered.pop(0)
                    q.remove(e)
                    if e[0] == getattr(e[2], attr):
                        break
            else:
                e = sorted([e for e in q if e[2] is got and e[0] == best], key=lambda e: e[1])[0]
                q.remove(e)
        elif op == "refill":
            sd.RefillQueue()
            hist.append(("refill",))
            queue[:] = []; lqueue[:] = []
            for m in model:
                qins(queue, m.globalR, m); qins(lqueue, m.localR, m)
        elif op == "clear":
            sd.ClearQueue()
            hist.append(("clear",))
            queue[:] = []; lqueue[:] = []
        elif op == "touch" and dual:
            m = rnd.choice(model)
            m.globalR = rnd.random()
            m.localR = rnd.random()
            hist.append(("touch", m.GetX()))
        if not check_struct(sd, model, hist, fails, "after %s" % (op,), (queue, lqueue)):
            return


def bounded(rnd, fails):
    """C19 last clause: a bounded queue retains the highest-priority entries"""
    n = rnd.randint(1, 6)
    q = CharacteristicsQueue(n)
    items = []
    for i in range(rnd.randint(1, 15)):
        p = rnd.choice([rnd.random(), 0.5, 1.0])
        it = mk(i / 100.0)
        q.Insert(p, it)
        items.append((p, i, it))
    keep = sorted(items, key=lambda e: (-e[0], e[1]))[:n]
    got = []
    while not q.IsEmpty():
        got.append(q.GetBestItem())
    if sorted(g[1] for g in got) != sorted(e[0] for e in keep) or [g[1] for g in got] != sorted([g[1] for g in got], reverse=True):
        fails.append(dict(what="bounded queue did not retain / deliver the highest-priority entries", maxlen=n,
                          inserted=[e[0] for e in items], delivered=[g[1] for g in got]))


def main():
    req = json.loads(sys.stdin.read() or "{}")
    rnd = random.Random(req.get("seed", 0))
    fails = []
    n = req.get("n", 300)
    for i in range(n):
        try:
            history(rnd, i % 2 == 1, fails)
            bounded(rnd, fails)
        except Exception as e:
            fails.append(dict(what="container operation raised %r inside its pre-condition" % (e,)))
        if fails:
            break
    print(json.dumps({"failures": fails[:3], "histories": n}, default=str))


main()
