"""Native replay oracle for C15: evaluation histories on the REAL benchmark problems (PYTHONPATH = repo under test).
Only used to attach a failing input to a failed frame obligation; never a proof."""
import sys, json, random
import numpy as np
from iOpt.trial import Point, FunctionValue
from iOpt.problems.hill import Hill
from iOpt.problems.shekel import Shekel
from iOpt.problems.shekel4 import Shekel4
from iOpt.problems.rastrigin import Rastrigin
from iOpt.problems.xsquared import XSquared
from iOpt.problems.stronginC3 import StronginC3
from iOpt.problems.grishagin import Grishagin
from iOpt.problems.GKLS import GKLS


def mk():
    return [lambda: Hill(3), lambda: Hill(7), lambda: Shekel(5), lambda: Shekel(9), lambda: Shekel4(2), lambda: Rastrigin(2),
            lambda: XSquared(3), lambda: StronginC3(), lambda: Grishagin(4), lambda: Grishagin(14), lambda: GKLS(2, 1),
            lambda: GKLS(2, 2), lambda: GKLS(3, 5)]


def ev(p, x, holder=None):
    fv = holder or FunctionValue()
    pt = Point(np.array(x, dtype=np.double), [])
    before = np.array(pt.floatVariables, copy=True)
    r = p.Calculate(pt, fv)
    if r is not fv:
        return None, "Calculate did not return the supplied value holder"
    if not np.array_equal(before, pt.floatVariables):
        return None, "Calculate modified the point"
    return float(fv.value), None


def main():
    req = json.loads(sys.stdin.read() or "{}")
    rnd = random.Random(req.get("seed", 0))
    fails = []
    for trial in range(40):
        makers = mk()
        rnd.shuffle(makers)
        # reference: fresh instances, one evaluation each
        plan = []
        for m in makers[:6]:
            p = m()
            lo, up = np.asarray(p.lowerBoundOfFloatVariables, float), np.asarray(p.upperBoundOfFloatVariables, float)
            pts = [list(lo + (up - lo) * np.array([rnd.random() for _ in lo])) for _ in range(4)]
            if hasattr(p, "function") and hasattr(p.function, "GKLS_minima"):
                mm = p.function.GKLS_minima
                pts.append(list(np.clip(np.array(mm.local_min[2]) + 0.3 * mm.rho[2] * np.array([1.0] + [0.0] * (len(lo) - 1)), lo, up)))
                pts.append(list(mm.local_min[1]))
            plan.append((m, pts))
        ref = []
        for m, pts in plan:
            ref.append([ev(m(), x)[0] for x in pts])
        # history: all instances alive, interleaved evaluations in random order, shared / reused holders, repeated points
        inst = [m() for m, _ in plan]
        shared = FunctionValue()
        jobs = [(i, j) for i, (_, pts) in enumerate(plan) for j in range(len(pts))] * 2
        rnd.shuffle(jobs)
        for (i, j) in jobs:
            h = shared if rnd.random() < 0.5 else None
            v, err = ev(inst[i], plan[i][1][j], h)
            if err or v != ref[i][j]:
                fails.append(dict(what=err or "evaluation depends on the history of earlier evaluations / other instances",
                                  problem=type(inst[i]).__name__, point=plan[i][1][j], observed=v, expected=ref[i][j],
                                  history=[(type(inst[a]).__name__, b) for a, b in jobs[:jobs.index((i, j)) + 1]][-8:]))
                print(json.dumps({"failures": fails, "evaluated": trial}))
                return
    print(json.dumps({"failures": fails, "evaluated": 40}))


main()
