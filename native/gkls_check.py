"""GKLS obligations (C14, and the GKLS part of C10), evaluated natively on the REAL generator for all 400 members
(dimension 2..5 x number 1..100; finite family, exhaustive).
stdin: {"jobs": int, "link_points": int}
stdout (last line): {"structural": {...}, "lemma": {...}, "link": {...}, "repro": {...}, "failures": [...]}

(S) structural contract on the generator state and exact values at the 10 minimisers   - exhaustive, exact
(L) ball lemma  forall rho in [0, rho_i], |s| <= |T - M_i| :  cubic_i(rho, s) >= f_i     - interval branch and bound on the
    polar form of the cubic splice; continuity = polynomial identity cubic_i(rho_i, s) = paraboloid (checked with sympy)
(K) link between the polar form used in (L) and the real CalculateDFunction             - BOUNDED: random points per instance
(R) reproducibility: Knuth's published check value of the lagged-Fibonacci generator, the repository's recorded value,
    bit-identical regeneration"""
import sys, os, json, math, importlib.util
import multiprocessing as mp
import numpy as np

HERE = os.path.dirname(os.path.dirname(os.path.abspath(__file__)))
spec = importlib.util.spec_from_file_location("ival", os.path.join(HERE, "pyvc", "ival.py"))
ival = importlib.util.module_from_spec(spec)
spec.loader.exec_module(ival)
I = ival.I

from iOpt.problems.GKLS import GKLS
from iOpt.trial import Point, FunctionValue
from iOpt.problems.GKLS_function.gkls_random import GKLSRandomGenerator

CLASS = {2: (0.9, 0.2), 3: (0.66, 0.2), 4: (0.66, 0.2), 5: (0.66, 0.3)}      # 'Simple' class of the GKLS paper


def calc(p, x):
    return float(p.Calculate(Point(np.array(x, dtype=np.double), []), FunctionValue()).value)


def polar_value(f0, fi, n2, rho_i, rho, s):
    """cubic splice of ball i in polar form: rho = |x - M_i|, s = <x - M_i, T - M_i> / rho, n2 = |T - M_i|^2"""
    a = n2 + f0 - fi
    return (2.0 * s / (rho_i * rho_i) - 2.0 * a / (rho_i * rho_i * rho_i)) * rho ** 3 + \
           (1.0 - 4.0 * s / rho_i + 3.0 * a / (rho_i * rho_i)) * rho ** 2 + fi


def job(arg):
    d, k, link_points = arg
    out = []
    tag = "GKLS(%d,%d)" % (d, k)
    p = GKLS(d, k)
    g = p.function
    M = np.array(g.GKLS_minima.local_min, dtype=float)
    f = np.array(g.GKLS_minima.f, dtype=float)
    rho = np.array(g.GKLS_minima.rho, dtype=float)
    n = g.GKLS_num_minima
    # ---- (S)
    def need(c, what):
        if not c:
            out.append(dict(what="%s: %s" % (tag, what)))
    need(n == 10 and M.shape == (10, d), "10 minimisers of dimension %d" % d)
    need(g.isArgSet == 1, "isArgSet == 1")
    need(np.all(M >= -1.0) and np.all(M <= 1.0), "every minimiser inside the box [-1,1]^%d" % d)
    need(np.all(rho[1:] > 0), "every attraction radius positive")
    for i in range(1, n):
        for j in range(i + 1, n):
            need(np.linalg.norm(M[i] - M[j]) >= rho[i] + rho[j] - 1e-9, "attraction balls %d and %d overlap" % (i, j))
    need(abs(np.linalg.norm(M[1] - M[0]) - CLASS[d][0]) <= 1e-9, "global minimiser at the class distance %.2f from the vertex "
         "(found %.9f)" % (CLASS[d][0], np.linalg.norm(M[1] - M[0])))
    need(abs(rho[1] - CLASS[d][1]) <= 1e-12, "global attraction radius equals the class radius %.2f (found %.9f)" % (CLASS[d][1], rho[1]))
    need(f[0] == 0.0 and f[1] == -1.0, "paraboloid minimum value 0 and global minimum value -1")
    need(np.all(f[2:] > -1.0), "every other minimum strictly above -1")
    need(g.GKLS_glob.num_global_minima == 1 and g.GKLS_glob.gm_index[0] == 1, "exactly one global minimiser, index 1")
    for i in range(n):
        v = calc(p, M[i])
        need(v == f[i], "value at minimiser %d is %r, prescribed %r" % (i, v, f[i]))
    # the same evaluations through ONE caller-owned coordinate buffer that is overwritten in place between the calls (the value
    # is a function of the point's content, not of the container or of the evaluation history)
    buf = np.zeros(d, dtype=np.double)
    pt = Point(buf, [])
    for i in list(range(n)) + [1, 0]:
        buf[:] = M[i]
        v = float(p.Calculate(pt, FunctionValue()).value)
        need(v == f[i], "value at minimiser %d through a reused coordinate buffer is %r, prescribed %r" % (i, v, f[i]))
    ko = np.array(p.knownOptimum[0].point.floatVariables, dtype=float)
    need(np.array_equal(ko, M[1]) and p.knownOptimum[0].functionValues[0].value == -1.0, "declared optimum = global minimiser, value -1")
    # bit-identical regeneration
    p2 = GKLS(d, k)
    need(np.array_equal(np.array(p2.function.GKLS_minima.local_min, dtype=float), M) and
         np.array_equal(np.array(p2.function.GKLS_minima.f, dtype=float), f) and
         np.array_equal(np.array(p2.function.GKLS_minima.rho, dtype=float), rho), "regeneration is bit-identical")
    # ---- (L) ball lemma by interval branch and bound on (rho, s)
    lemma_boxes = 0
    for i in range(1, n):
        n2 = float(np.dot(M[0] - M[i], M[0] - M[i]))
        nn = math.sqrt(n2)

        def fe(xs, i=i, n2=n2):
            r, s = xs
            a = I(np.float64(n2)) + f[0] - f[i]
            ri = I(np.float64(rho[i]))
            c3 = (s * 2.0) / (ri * ri) - (a * 2.0) / (ri * ri * ri)
            c2 = 1.0 - (s * 4.0) / ri + (a * 3.0) / (ri * ri)
            return r * r * (c3 * r + c2)           # cubic - f_i  >= 0 ?
        res = ival.lower_bound_proof(fe, [0.0, -nn * (1 + 1e-12)], [float(rho[i]), nn * (1 + 1e-12)], -1e-12, max_boxes=400000,
                                     min_width=1e-13)
        lemma_boxes += res["boxes"]
        if res["status"] == "witness":
            out.append(dict(what="%s: inside ball %d the function drops below the prescribed minimum %r (rho=%.6f, s=%.6f)"
                                 % (tag, i, f[i], res["witness"][0], res["witness"][1])))
        elif res["status"] != "proved":
            out.append(dict(what="%s: ball lemma %d undecided (%s)" % (tag, i, res.get("reason")), undecided=True))
    # ---- (K) bounded link: real Calculate vs. the piecewise form used above
    rnd = np.random.RandomState(1000 * d + k)
    worst = 0.0
    for t in range(link_points):
        if t % 2 == 0:
            x = rnd.uniform(-1, 1, size=d)
        else:
            i = rnd.randint(1, n)
            v = rnd.normal(size=d)
            v = v / np.linalg.norm(v) * rho[i] * rnd.uniform(0.01, 1.2)
            x = np.clip(M[i] + v, -1, 1)
        inside = [i for i in range(1, n) if np.linalg.norm(x - M[i]) <= rho[i]]
        if inside:
            i = inside[0]
            r = float(np.linalg.norm(x - M[i]))
            s = float(np.dot(x - M[i], M[0] - M[i]) / r) if r > 0 else 0.0
            exp = polar_value(f[0], f[i], float(np.dot(M[0] - M[i], M[0] - M[i])), rho[i], r, s)
        else:
            exp = float(np.dot(x - M[0], x - M[0]) + f[0])
        got = calc(p, x)
        err = abs(got - exp) / max(1.0, abs(exp))
        worst = max(worst, err)
        if err > 1e-9:
            out.append(dict(what="%s: Calculate(%s) = %r differs from the paraboloid / cubic splice form %r" % (tag, list(map(float, x)), got, exp)))
            break
    return dict(tag=tag, failures=out, lemma_boxes=lemma_boxes, link_worst=worst)


def knuth_check():
    g = GKLSRandomGenerator()
    seed = 310952
    rnd_num = np.zeros(GKLSRandomGenerator.NUM_RND, dtype=np.double)
    cond = np.zeros(GKLSRandomGenerator.KK, dtype=np.double)
    g.Initialize(seed, rnd_num, cond)
    for _ in range(2009):
        g.GenerateNextNumbers()
    return float(cond[0])          # ran_u[0], the generator state


def seed_sensitivity():
    """The published generator seeds its lagged-Fibonacci state from the low 30 bits of the seed (Knuth's ranf_start:
    `seed & 0x3fffffff`): every one of those 30 bits must change the state, bits 30 and above must not.  Checked for the
    extreme seeds of every dimension (GKLS seeds are (nf-1) + (nmin-1)*100 + dim*1000000)."""
    bad = []
    n = 0
    for d in (2, 5):
        for k in (1, 100):
            seed = (k - 1) + 9 * 100 + d * 1000000
            ref = _state(seed)
            for bit in range(0, 32):
                st = _state(seed ^ (1 << bit))
                n += 1
                same = bool(np.array_equal(st, ref))
                if bit < 30 and same:
                    bad.append("seed %d: flipping bit %d of the seed does not change the generator state" % (seed, bit))
                if bit >= 30 and not same:
                    bad.append("seed %d: bit %d (outside the 30-bit seed space) changes the generator state" % (seed, bit))
    return n, bad


def _state(seed):
    g = GKLSRandomGenerator()
    rnd_num = np.zeros(GKLSRandomGenerator.NUM_RND, dtype=np.double)
    cond = np.zeros(GKLSRandomGenerator.KK, dtype=np.double)
    g.Initialize(seed, rnd_num, cond)
    return np.array(cond, dtype=np.double)


def main():
    req = json.loads(sys.stdin.read() or "{}")
    args = [(d, k, int(req.get("link_points", 60))) for d in range(2, 6) for k in range(1, 101)]
    if req.get("sample"):
        args = args[::int(req["sample"])]
    with mp.Pool(int(req.get("jobs", 12))) as pool:
        res = pool.map(job, args, chunksize=2)
    fails = [f for r in res for f in r["failures"]]
    out = {"instances": len(res), "failures": fails[:20], "n_failures": len(fails),
           "lemma_boxes": sum(r["lemma_boxes"] for r in res), "ball_lemmas": 9 * len(res),
           "link_points": sum(int(req.get("link_points", 60)) for _ in res), "link_worst_rel_err": max(r["link_worst"] for r in res)}
    try:
        v = knuth_check()
        out["knuth_value"] = v
        out["knuth_ok"] = abs(v - 0.27452626307394156768) < 1e-17
    except Exception as e:
        out["knuth_ok"] = False
        out["knuth_error"] = repr(e)
    try:
        nn, bad = seed_sensitivity()
        out["seed_sensitivity"] = {"checked": nn, "failures": bad[:6]}
    except Exception as e:
        out["seed_sensitivity"] = {"checked": 0, "failures": ["exception %r" % (e,)]}
    p = GKLS(3, 1)
    out["recorded_value"] = calc(p, [0.9, 0.5, 0.3])
    print(json.dumps(out))


if __name__ == "__main__":
    main()
