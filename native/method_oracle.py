"""Native replay oracle for the method-level properties (C02 C03 C04 C05 C06 C11 C13 C16), run against the REAL iOpt.
stdin: {"mode": "c02"|..., "seed": int};  stdout (last line): {"failures": [...], "evaluated": n}
Only used to replay a failed / undecided obligation on the real code (to attach a failing input); never a proof."""
import sys, json, math, random, io, contextlib, os
os.environ.setdefault("MPLBACKEND", "Agg")
import numpy as np
from iOpt.problem import Problem
from iOpt.trial import Point, FunctionValue
from iOpt.solver import Solver
from iOpt.solver_parametrs import SolverParameters
from iOpt.method.listener import Listener, ConsoleFullOutputListener
from iOpt.evolvent.evolvent import Evolvent


class Fail(BaseException):
    pass


class RecProblem(Problem):
    def __init__(self, dim, lower, upper, kind=0, fail_at=None, exc=ValueError, fresh_holder=False, raw_bounds=False):
        super().__init__()
        self.name = "rec"
        self.dimension = dim
        self.numberOfFloatVariables = dim
        self.numberOfObjectives = 1
        self.numberOfConstraints = 0
        self.floatVariableNames = np.array(["x%d" % i for i in range(dim)], dtype=str)
        self.lowerBoundOfFloatVariables = np.array(lower, dtype=np.double)
        self.upperBoundOfFloatVariables = np.array(upper, dtype=np.double)
        if raw_bounds:          # bounds exactly as a user may write them: integer arrays / plain lists
            self.lowerBoundOfFloatVariables = lower
            self.upperBoundOfFloatVariables = upper
        self.kind, self.log, self.fail_at, self.exc, self.fresh_holder = kind, [], fail_at, exc, fresh_holder
        self.calls = 0

    def f(self, y):
        y = [float(v) for v in y]
        k = self.kind
        if k == 0:
            return sum((v - 0.3) ** 2 for v in y)
        if k == 1:
            return sum(y)
        if k == 2:
            return sum(math.sin(3 * v) + 0.1 * v for v in y)
        if k == 3:
            return 1.0
        if k == 4:
            return 2.5e7 + sum((v - 0.3) ** 2 for v in y)
        if k == 5:
            return math.floor(3 * sum(y)) / 3.0
        if k == 6:
            return abs(y[0] - 0.37) ** 0.9
        if k == 8:              # a wide shallow well and a narrow deep one (found late by the global search)
            da = sum((v - 0.3) ** 2 for v in y)
            db = sum((v - 0.7) ** 2 for v in y)
            return -math.exp(-da / (2 * 0.25 ** 2)) - 3.0 * math.exp(-db / (2 * 0.07 ** 2))
        return -sum(abs(v) for v in y)

    def Calculate(self, point, functionValue):
        self.calls += 1
        if self.fail_at is not None and self.calls == self.fail_at:
            raise (self.exc() if self.exc in (KeyboardInterrupt,) else self.exc("objective failure"))
        v = self.f(point.floatVariables)
        self.log.append((tuple(float(t) for t in point.floatVariables), v))
        if self.fresh_holder:
            functionValue = FunctionValue()
        functionValue.value = v
        return functionValue


class Rec(Listener):
    def __init__(self):
        self.events = []

    def BeforeMethodStart(self, method):
        self.events.append(("before",))

    def OnEndIteration(self, pts, solution):
        self.events.append(("end", [(p.GetX(), p.GetZ()) for p in pts], solution.numberOfGlobalTrials))

    def OnMethodStop(self, sd, solution, status):
        self.events.append(("stop", solution.numberOfGlobalTrials, float(solution.bestTrials[0].functionValues[0].value), status))


class StopOnly(Listener):
    def __init__(self):
        self.events = []

    def OnMethodStop(self, sd, solution, status):
        self.events.append(("stop", solution.numberOfGlobalTrials))


def quiet(fn, *a, **k):
    buf = io.StringIO()
    with contextlib.redirect_stdout(buf):
        r = fn(*a, **k)
    return r, buf.getvalue()


def boxes(N):
    return [([0.0] * N, [1.0] * N), ([-2.0 + i for i in range(N)], [3.5 + 2 * i for i in range(N)])]


def items(s):
    out = []
    for it in s.searchData:
        out.append(it)
        if len(out) > 10 ** 6:
            break
    return out


def check_record(s, p, N, m, what):
    """C06/C04/C05: the search information is an ordered, linked, complete, faithful record of the evaluated trials"""
    its = items(s)
    xs = [it.GetX() for it in its]
    if len(its) != len(p.log) + 2 or s.searchData.GetCount() != len(its):
        return dict(what=what + ": %d stored items / GetCount %d for %d evaluated trials" % (len(its), s.searchData.GetCount(), len(p.log)))
    if xs[0] != 0.0 or xs[-1] != 1.0 or any(not a < b for a, b in zip(xs, xs[1:])):
        return dict(what=what + ": coordinates not strictly increasing from 0 to 1", xs=xs[:8])
    ev = Evolvent(p.lowerBoundOfFloatVariables, p.upperBoundOfFloatVariables, N, m)
    logged = sorted(p.log)
    got = []
    for i, it in enumerate(its):
        if it.GetLeft() is not (its[i - 1] if i else None) or it.GetRight() is not (its[i + 1] if i + 1 < len(its) else None):
            return dict(what=what + ": neighbour links inconsistent at position %d" % i)
        if i > 0 and abs(it.delta - (it.GetX() - its[i - 1].GetX()) ** (1.0 / N)) > 1e-12:
            return dict(what=what + ": stored interval length differs from (x - x_left)^(1/N) at position %d" % i,
                        observed=it.delta, expected=(it.GetX() - its[i - 1].GetX()) ** (1.0 / N))
        y = ev.GetImage(it.GetX())
        if not np.allclose(np.asarray(it.GetY().floatVariables, dtype=float), y, rtol=0, atol=1e-12):
            return dict(what=what + ": stored point is not the evolvent image of its coordinate", x=it.GetX(),
                        observed=[float(t) for t in it.GetY().floatVariables], expected=[float(t) for t in y])
        if 0 < i < len(its) - 1:
            fy = p.f(it.GetY().floatVariables)
            if it.GetZ() != fy or it.functionValues[0].value != fy:
                return dict(what=what + ": stored value differs from the objective at the stored point", x=it.GetX(),
                            observed=[it.GetZ(), it.functionValues[0].value], expected=fy)
            got.append((tuple(float(t) for t in it.GetY().floatVariables), fy))
        lo, up = p.lowerBoundOfFloatVariables, p.upperBoundOfFloatVariables
        if 0 < i < len(its) - 1 and not all(lo[j] <= it.GetY().floatVariables[j] <= up[j] for j in range(N)):
            return dict(what=what + ": trial point outside the box", point=[float(t) for t in it.GetY().floatVariables])
    if sorted(got) != logged:
        return dict(what=what + ": stored trials differ from the evaluated trials")
    return None


def check_best(s, p, what):
    """C04: the reported optimum is the first best evaluated trial and its value is the objective at its point"""
    if not p.log:
        return None
    bt = s.GetResults().bestTrials[0]
    pt = tuple(float(t) for t in bt.point.floatVariables)
    val = float(bt.functionValues[0].value)
    best = min(v for _, v in p.log)
    if (pt, val) not in p.log or val != best or p.f(pt) != val:
        return dict(what=what + ": reported optimum is not the best evaluated trial", observed=[list(pt), val],
                    expected_value=best)
    return None


def agp_reference(log_x, zs, N, r):
    """independent re-computation of the AGP decision (C02) from the trial history: returns the next coordinate"""
    pts = sorted(zip(log_x, zs))
    xs = [0.0] + [a for a, _ in pts] + [1.0]
    z = [None] + [b for _, b in pts] + [None]
    zstar = min(zs)
    return xs, z, zstar


def c02(req, out):
    """every trial subdivides an interval of maximal characteristic; the point follows the rule (independent replay)"""
    n = 0
    # last rows: a box that is tiny in absolute units (lengths in metres on a nanometre scale) and one far from the origin
    for N, kind, r, iters, box in ((1, 0, 2.5, 60, None), (1, 2, 3.0, 80, None), (2, 0, 2.5, 60, None), (1, 6, 2.2, 120, None),
                                   (3, 2, 3.0, 40, None), (1, 3, 2.0, 40, None), (1, 1, 2.5, 40, ([0.0], [4e-9])),
                                   (2, 1, 2.5, 40, ([0.0, 1e-9], [4e-9, 3e-9])), (2, 0, 2.5, 40, ([1000.0, -2000.5], [1001.0, -2000.0]))):
        lo, up = box if box else boxes(N)[0]
        p = RecProblem(N, lo, up, kind)
        s = Solver(p, SolverParameters(r=r, eps=1e-12, itersLimit=10 ** 6))
        hist = []          # (x, z) in evaluation order
        M = 1.0
        for k in range(iters):
            before = [(it.GetX(), it.GetZ(), it.GetIndex()) for it in items(s)] if k else None
            try:
                quiet(s.DoGlobalIteration, 1)
            except BaseException as e:
                out.append(dict(what="DoGlobalIteration raised %r" % (e,), N=N, kind=kind, r=r, trial=k + 1))
                return n
            its = items(s)
            new = [it for it in its if 0 < it.GetX() < 1 and (before is None or it.GetX() not in [b[0] for b in before])]
            n += 1
            if k == 0:
                if len(new) != 1 or new[0].GetX() != 0.5:
                    out.append(dict(what="first trial is not the image of x = 0.5", observed=[t.GetX() for t in new]))
                    return n
                hist.append((0.5, new[0].GetZ()))
                continue
            if len(new) != 1:
                out.append(dict(what="an iteration did not add exactly one new curve point", N=N, kind=kind, trial=k + 1))
                return n
            xnew = new[0].GetX()
            # reference decision from `before`
            xs = [b[0] for b in before]
            zz = [b[1] for b in before]
            ev = [b[2] == 0 for b in before]
            zstar = min(z for z, e in zip(zz, ev) if e)
            D = [None] + [(xs[i] - xs[i - 1]) ** (1.0 / N) for i in range(1, len(xs))]
            for i in range(2, len(xs) - 1):
                if ev[i] and ev[i - 1]:
                    M = max(M, abs(zz[i] - zz[i - 1]) / D[i])
            R = []
            for i in range(1, len(xs)):
                if ev[i] and ev[i - 1]:
                    R.append(D[i] + (zz[i] - zz[i - 1]) ** 2 / (r * r * M * M * D[i]) - 2 * (zz[i] + zz[i - 1] - 2 * zstar) / (r * M))
                elif ev[i]:
                    R.append(2 * D[i] - 4 * (zz[i] - zstar) / (r * M))
                else:
                    R.append(2 * D[i] - 4 * (zz[i - 1] - zstar) / (r * M))
            t = next((i for i in range(1, len(xs)) if xs[i - 1] < xnew < xs[i]), None)
            if t is None:
                out.append(dict(what="new point is not strictly inside an interval of the partition / a curve point was "
                                     "evaluated twice", x=xnew, N=N, kind=kind, trial=k + 1))
                return n
            if R[t - 1] < max(R) - 1e-9 * (1 + abs(max(R))):
                out.append(dict(what="the subdivided interval does not have the maximal characteristic", N=N, kind=kind, r=r,
                                trial=k + 1, chosen=[xs[t - 1], xs[t]], R_chosen=R[t - 1], R_max=max(R)))
                return n
            if ev[t] and ev[t - 1]:
                dz = zz[t] - zz[t - 1]
                exp = 0.5 * (xs[t] + xs[t - 1]) - math.copysign(1.0, dz) * (abs(dz) / M) ** N / (2 * r) if dz != 0 else 0.5 * (xs[t] + xs[t - 1])
            else:
                exp = 0.5 * (xs[t] + xs[t - 1])
            if abs(xnew - exp) > 1e-12 * (1 + abs(exp)) and not (dz_zero(ev, t, zz) and abs(xnew - 0.5 * (xs[t] + xs[t - 1])) < 1e-15):
                out.append(dict(what="new point does not follow the AGP rule", N=N, kind=kind, r=r, trial=k + 1,
                                observed=xnew, expected=exp))
                return n
        # the values the rule was computed from are the objective's values at the stored points
        f = check_record(s, p, N, 10, "values used by the decision rule")
        if f:
            f.update(N=N, kind=kind, lower=list(map(float, lo)), upper=list(map(float, up)))
            out.append(f)
            return n
    return n


def dz_zero(ev, t, zz):
    return ev[t] and ev[t - 1] and zz[t] == zz[t - 1]


def c06(req, out):
    n = 0
    for N, kind, r, m in ((1, 0, 2.5, 10), (2, 2, 3.0, 10), (3, 0, 2.5, 6), (2, 5, 2.0, 4), (4, 0, 3.0, 10)):
        for lo, up in boxes(N):
            p = RecProblem(N, lo, up, kind)
            s = Solver(p, SolverParameters(r=r, eps=1e-9, itersLimit=10 ** 6, evolventDensity=m))
            for step in (1, 1, 3, 7, 12):
                quiet(s.DoGlobalIteration, step)
                n += 1
                f = check_record(s, p, N, m, "after DoGlobalIteration") or check_best(s, p, "after DoGlobalIteration")
                if f:
                    f.update(N=N, kind=kind, lower=lo, upper=up, trials=len(p.log))
                    out.append(f)
                    return n
            p2 = RecProblem(N, lo, up, kind)
            # every documented parameter is exercised: a start point is given (inside the box, off the curve's grid)
            sp = Point(np.array([lo[j] + 0.3137 * (up[j] - lo[j]) for j in range(N)], dtype=np.double), [])
            s2 = Solver(p2, SolverParameters(r=r, eps=0.05, itersLimit=60, evolventDensity=m, startPoint=sp))
            quiet(s2.DoGlobalIteration, 5)
            quiet(s2.Solve)
            quiet(s2.Solve)
            n += 1
            f = check_record(s2, p2, N, m, "after DoGlobalIteration(5); Solve(); Solve()") or check_best(s2, p2, "after Solve")
            if f:
                f.update(N=N, kind=kind, lower=lo, upper=up, trials=len(p2.log))
                out.append(f)
                return n
    return n


def c04(req, out):
    n = 0
    for N, kind, fresh in ((1, 0, False), (2, 4, False), (2, 2, True), (1, 5, False), (3, 0, True), (2, 3, False)):
        lo, up = boxes(N)[1]
        p = RecProblem(N, lo, up, kind, fresh_holder=fresh)
        lis = Rec()
        s = Solver(p, SolverParameters(r=2.5, eps=0.01, itersLimit=150))
        s.AddListener(lis)

        class Chk(Listener):
            def __init__(self):
                self.bad = None

            def OnEndIteration(self_, pts, solution):
                if self_.bad is None:
                    self_.bad = check_best(s, p, "inside OnEndIteration")

            def OnMethodStop(self_, sd, solution, status):
                if self_.bad is None:
                    self_.bad = check_best(s, p, "inside OnMethodStop")
        c = Chk()
        s.AddListener(c)
        for step in (1, 2, 7):
            quiet(s.DoGlobalIteration, step)
            n += 1
            f = c.bad or check_best(s, p, "after DoGlobalIteration")
            if f:
                f.update(N=N, kind=kind, fresh_holder=fresh, trials=len(p.log))
                out.append(f)
                return n
        quiet(s.Solve)
        n += 1
        f = c.bad or check_best(s, p, "in the Solution returned by Solve")
        if f:
            f.update(N=N, kind=kind, fresh_holder=fresh, trials=len(p.log))
            out.append(f)
            return n
    return n


def c03(req, out):
    n = 0
    # (N, objective, eps, budget, evolvent density); the last rows: accuracy finer than the evolvent grid, so that different
    # curve points share one image
    for N, kind, eps, lim, dens in ((1, 0, 0.01, 100, 10), (2, 0, 0.05, 200, 10), (1, 2, 0.5, 50, 10), (2, 2, 0.5 ** 0.5, 50, 10),
                                    (3, 0, 0.5 ** (1 / 3.0), 50, 10), (1, 0, 0.01, 1, 10), (1, 0, 0.01, 2, 10), (1, 0, 2.0, 50, 10),
                                    (2, 5, 0.02, 37, 10), (1, 3, 1e-3, 25, 10), (2, 0, 0.01, 300, 3), (2, 2, 0.01, 400, 4),
                                    (3, 0, 0.02, 300, 2)):
        lo, up = boxes(N)[0]
        p = RecProblem(N, lo, up, kind)
        s = Solver(p, SolverParameters(r=2.5, eps=eps, itersLimit=lim, evolventDensity=dens))
        deltas = []
        m = s.method
        orig = m.CalculateIterationPoint

        def spy():
            new, old = orig()
            deltas.append(old.delta)
            return new, old
        m.CalculateIterationPoint = spy
        sol, _ = quiet(s.Solve)
        n += 1
        if sol.numberOfGlobalTrials != len(p.log) or len(p.log) > lim:
            out.append(dict(what="reported global trials %d, evaluations %d, budget %d" % (sol.numberOfGlobalTrials, len(p.log), lim),
                            N=N, eps=eps))
            return n
        acc = min(deltas) if deltas else float("inf")
        if sol.solutionAccuracy != acc:
            out.append(dict(what="reported accuracy differs from the smallest subdivided Hoelder length", observed=sol.solutionAccuracy,
                            expected=acc, N=N, eps=eps, itersLimit=lim))
            return n
        # never earlier, never later
        below = [i for i, d in enumerate(deltas) if d < eps]
        trials_expected = min(lim, (below[0] + 2) if below else lim)
        if len(p.log) != trials_expected:
            out.append(dict(what="search did not stop exactly after the first iteration that subdivided an interval shorter than "
                                 "eps (or at the budget)", observed=len(p.log), expected=trials_expected, N=N, eps=eps, itersLimit=lim))
            return n
    return n


def c16(req, out):
    n = 0
    for N, kind in ((1, 0), (2, 2)):
        for exc in (ValueError, KeyboardInterrupt, RuntimeError, Fail, ZeroDivisionError, OverflowError, FloatingPointError, MemoryError):
            for k in (2, 3, 5, 17):
                lo, up = boxes(N)[0]
                p = RecProblem(N, lo, up, kind, fail_at=k, exc=exc)
                # every documented parameter is exercised: half of the runs are given a start point
                sp = Point(np.array([lo[j] + 0.3137 * (up[j] - lo[j]) for j in range(N)], dtype=np.double), []) if k % 2 == 0 else []
                s = Solver(p, SolverParameters(r=2.5, eps=1e-6, itersLimit=200, startPoint=sp))
                try:
                    sol, txt = quiet(s.Solve)
                except BaseException as e:
                    out.append(dict(what="Solve did not contain the objective's exception %r at evaluation %d" % (e, k), N=N))
                    return n
                n += 1
                if sol.numberOfGlobalTrials != k - 1 or len(p.log) != k - 1:
                    out.append(dict(what="result does not reflect exactly the k-1 completed trials", k=k, observed=sol.numberOfGlobalTrials))
                    return n
                f = check_record(s, p, N, 10, "after a contained objective failure") or check_best(s, p, "after a contained failure")
                if f:
                    f.update(N=N, k=k, exc=exc.__name__)
                    out.append(f)
                    return n
    return n


def c13(req, out):
    n = shipped_listeners(out)
    if out:
        return n
    for N, kind in ((1, 0), (2, 2)):
        lo, up = boxes(N)[0]
        ref = RecProblem(N, lo, up, kind)
        # every documented parameter is exercised: the 2-D runs are given a start point
        sp = Point(np.array([lo[j] + 0.3137 * (up[j] - lo[j]) for j in range(N)], dtype=np.double), []) if N == 2 else []
        sr = Solver(ref, SolverParameters(r=2.5, eps=0.02, itersLimit=120, startPoint=sp))
        quiet(sr.DoGlobalIteration, 4)
        quiet(sr.DoGlobalIteration, 3)
        solr, _ = quiet(sr.Solve)
        p = RecProblem(N, lo, up, kind)
        s = Solver(p, SolverParameters(r=2.5, eps=0.02, itersLimit=120, startPoint=sp))
        a, b, c = Rec(), StopOnly(), ConsoleFullOutputListener(mode='result')

        class Derived(Rec):
            pass

        class Derived2(Derived):
            def OnEndIteration(self, pts, solution):
                Rec.OnEndIteration(self, pts, solution)
        d = Derived2()
        for l in (a, b, c, d):
            s.AddListener(l)
        try:
            quiet(s.DoGlobalIteration, 4)
            quiet(s.DoGlobalIteration, 3)
            sol, txt = quiet(s.Solve)
        except BaseException as e:
            out.append(dict(what="a listener derived from Listener could not be attached / notified: %r" % (e,)))
            return n
        n += 1
        if p.log != ref.log:
            out.append(dict(what="attaching listeners changed the trial sequence", first=len(ref.log), second=len(p.log)))
            return n
        for l in (a, d):
            ev = l.events
            kinds = [e[0] for e in ev]
            if kinds[0] != "before" or kinds.count("before") != 1 or kinds[-1] != "stop" or kinds.count("stop") != 1:
                out.append(dict(what="notification protocol violated", events=kinds[:12]))
                return n
            ends = [e for e in ev if e[0] == "end"]
            flat = [x for e in ends for x in e[1]]
            if [len(e[1]) for e in ends[:2]] != [4, 3] or len(flat) != len(p.log) or [z for _, z in flat] != [v for _, v in p.log]:
                out.append(dict(what="OnEndIteration did not deliver exactly the new trials of each call in order",
                                sizes=[len(e[1]) for e in ends][:6]))
                return n
            if ev[-1][1] != sol.numberOfGlobalTrials or ev[-1][2] != float(sol.bestTrials[0].functionValues[0].value):
                out.append(dict(what="OnMethodStop did not receive the final solution"))
                return n
        if len(b.events) != 1:
            out.append(dict(what="a listener overriding only OnMethodStop was not notified exactly once", events=b.events))
            return n
        want = ["%d" % sol.numberOfGlobalTrials, "%d" % sol.numberOfLocalTrials, "%.8f" % sol.bestTrials[0].functionValues[0].value,
                "%.8f" % sol.solutionAccuracy, str(sol.bestTrials[0].point.floatVariables)]
        for w in want:
            if w not in txt:
                out.append(dict(what="console final report does not show the solution's actual counts/point/value/accuracy",
                                missing=w))
                return n
    return n


def shipped_listeners(out):
    """C13 'attaching the shipped console and painting listeners changes neither the trial sequence nor the result': every
    shipped listener, over its documented parameter combinations (the slow neuro-approximation modes excepted), against the
    same run without listeners"""
    import tempfile, shutil, warnings
    from iOpt.method.listener import (StaticPaintListener, StaticNDPaintListener, AnimationPaintListener,
                                      AnimationNDPaintListener)
    tmp = tempfile.mkdtemp(prefix="c13oracle")
    n = 0
    try:
        cfgs = []
        for bottom in (False, True):
            for mode in ("objective function", "only points", "interpolation"):
                cfgs.append((1, lambda b=bottom, m=mode: StaticPaintListener("s.png", tmp + "/", 0, b, m), "StaticPaintListener(%r, bottom=%r)" % (mode, bottom)))
            for obj in (True, False):
                cfgs.append((1, lambda b=bottom, o=obj: AnimationPaintListener("a.png", tmp + "/", b, o), "AnimationPaintListener(bottom=%r, objFunc=%r)" % (bottom, obj)))
        cfgs.append((2, lambda: StaticNDPaintListener("n.png", tmp + "/", [0, 1], "lines layers", "objective function"), "StaticNDPaintListener(lines layers)"))
        cfgs.append((2, lambda: StaticNDPaintListener("n2.png", tmp + "/", [0, 1], "surface", "interpolation"), "StaticNDPaintListener(surface, interpolation)"))
        for obj in (True, False):
            cfgs.append((2, lambda o=obj: AnimationNDPaintListener("an.png", tmp + "/", [0, 1], o), "AnimationNDPaintListener(objFunc=%r)" % obj))
        ref = {}
        for N, mk, name in cfgs:
            lo, up = boxes(N)[0]
            if N not in ref:
                p0 = RecProblem(N, lo, up, 2)
                s0 = Solver(p0, SolverParameters(r=2.5, eps=0.05, itersLimit=25))
                sol0, _ = quiet(s0.Solve)
                ref[N] = ([(it.GetX(), it.GetZ()) for it in items(s0)], [float(t) for t in sol0.bestTrials[0].point.floatVariables],
                          float(sol0.bestTrials[0].functionValues[0].value), sol0.numberOfGlobalTrials)
            p = RecProblem(N, lo, up, 2)
            s = Solver(p, SolverParameters(r=2.5, eps=0.05, itersLimit=25))
            with warnings.catch_warnings():
                warnings.simplefilter("ignore")
                s.AddListener(mk())
                sol, txt = quiet(s.Solve)
            n += 1
            # (the painters evaluate the objective themselves to draw it: the call log is not the trial sequence - the search
            #  information is)
            got = ([(it.GetX(), it.GetZ()) for it in items(s)], [float(t) for t in sol.bestTrials[0].point.floatVariables],
                   float(sol.bestTrials[0].functionValues[0].value), sol.numberOfGlobalTrials)
            if got != ref[N] or p.f(got[1]) != got[2]:
                out.append(dict(what="attaching the shipped listener %s changes the trial sequence or the result" % name, N=N,
                                trials_with=sol.numberOfGlobalTrials, trials_without=ref[N][3], point_with=got[1],
                                point_without=ref[N][1], value_with=got[2], value_without=ref[N][2],
                                printed=txt[-200:]))
                return n
    finally:
        shutil.rmtree(tmp, ignore_errors=True)
    return n


def c13listeners(req, out):
    return shipped_listeners(out)


def c11(req, out):
    n = 0
    rnd = random.Random(req.get("seed", 0))
    for N, kind, eps in ((1, 0, 0.01), (2, 2, 0.05), (1, 2, 0.02), (2, 0, 0.03)):
        lo, up = boxes(N)[0]

        def run(batches, solve=True, results=False):
            p = RecProblem(N, lo, up, kind)
            s = Solver(p, SolverParameters(r=2.5, eps=eps, itersLimit=400))
            for b in batches:
                quiet(s.DoGlobalIteration, b)
                if results:
                    s.GetResults()
            if solve:
                quiet(s.Solve)
                n1 = len(p.log)
                quiet(s.Solve)
                if len(p.log) != n1:
                    return p, "second Solve performed further trials"
            return p, None
        ref, err = run([])
        for trial in range(6):
            batches = [rnd.randint(1, 9) for _ in range(rnd.randint(1, 5))]
            if trial == 5:
                batches = [len(ref.log) + 7]
            p, err = run(batches, results=bool(trial % 2))
            n += 1
            L = min(len(p.log), len(ref.log))
            if err or p.log[:L] != ref.log[:L] or len(p.log) != max(len(ref.log), sum(batches)):
                out.append(dict(what=err or "batched execution gives a different trial sequence / stopping moment than Solve alone",
                                N=N, kind=kind, batches=batches, observed=len(p.log), expected=max(len(ref.log), sum(batches))))
                return n
        p2, _ = run([])
        if p2.log != ref.log:
            out.append(dict(what="repeating a run does not reproduce the trial sequence"))
            return n
    return n


def c05(req, out):
    n = 0
    for N, kind in ((1, 1), (2, 1), (2, 7), (3, 1), (2, 0)):
        for lo, up in boxes(N) + [([0] * N, [1 + i for i in range(N)]), ([1000.0 + 10 * i for i in range(N)], [1001.0 + 10 * i for i in range(N)])]:
            p = RecProblem(N, lo, up, kind)
            if kind == 0:
                p.f = (lambda y, lo=lo: sum((float(v) - l - 0.3) ** 2 for v, l in zip(y, lo)))      # minimum inside every box
            s = Solver(p, SolverParameters(r=2.5, eps=0.05, itersLimit=80, refineSolution=True))
            sol, _ = quiet(s.Solve)
            n += 1
            glob_best = min(v for _, v in p.log[:sol.numberOfGlobalTrials])
            for y, v in p.log:
                if not all(float(lo[j]) - 1e-12 <= y[j] <= float(up[j]) + 1e-12 for j in range(N)):
                    out.append(dict(what="objective evaluated outside the box", point=list(y), lower=list(map(float, lo)),
                                    upper=list(map(float, up)), N=N, kind=kind))
                    return n
            pt = [float(t) for t in sol.bestTrials[0].point.floatVariables]
            val = float(sol.bestTrials[0].functionValues[0].value)
            if not all(float(lo[j]) <= pt[j] <= float(up[j]) for j in range(N)) or val > glob_best or p.f(pt) != val:
                out.append(dict(what="refined solution outside the box / worse than the best global trial / value differs from the "
                                     "objective at the returned point", point=pt, value=val, best_global=glob_best))
                return n
    # a steep objective on a box far from the origin, fine accuracy, a long refinement (its simplex shrinks far below the
    # size of the coordinates)
    for N, lim in ((2, 1500), (1, 600)):
        lo, up = [1000.0 + 10 * i for i in range(N)], [1001.0 + 10 * i for i in range(N)]
        p = RecProblem(N, lo, up, 0)
        p.f = (lambda y, lo=lo: 1000.0 * sum((float(v) - l - 0.37 - 0.24 * j) ** 2 for j, (v, l) in enumerate(zip(y, lo))))
        s = Solver(p, SolverParameters(r=3.0, eps=0.01, itersLimit=lim, refineSolution=True))
        sol, _ = quiet(s.Solve)
        n += 1
        pt = [float(t) for t in sol.bestTrials[0].point.floatVariables]
        val = float(sol.bestTrials[0].functionValues[0].value)
        glob_best = min(v for _, v in p.log[:sol.numberOfGlobalTrials])
        if not all(lo[j] <= pt[j] <= up[j] for j in range(N)) or p.f(pt) != val or val > glob_best:
            out.append(dict(what="refined solution (box far from the origin): outside the box / reported value differs from the "
                                 "objective at the returned point / worse than the best global trial", point=pt, value=val,
                            objective_at_point=p.f(pt), best_global=glob_best, lower=lo, upper=up))
            return n
    # bounds exactly as users write them: integer arrays and plain lists (odd sums, so that the box centre is not an integer)
    for N, lo, up in ((1, np.array([0]), np.array([3])), (2, np.array([0, 2]), np.array([1, 5])), (2, [0, 2], [1, 5]),
                      (3, np.array([-1, 0, 2]), np.array([2, 1, 7]))):
        for kind in (1, 0):
            p = RecProblem(N, lo, up, kind, raw_bounds=True)
            s = Solver(p, SolverParameters(r=2.5, eps=0.05, itersLimit=60, refineSolution=(kind == 1)))
            sol, _ = quiet(s.Solve)
            n += 1
            for y, v in p.log:
                if not all(float(lo[j]) - 1e-12 <= y[j] <= float(up[j]) + 1e-12 for j in range(N)):
                    out.append(dict(what="objective evaluated outside the box (integer-typed bounds)", point=list(y),
                                    lower=[float(t) for t in lo], upper=[float(t) for t in up], N=N, kind=kind,
                                    bounds_type=type(lo).__name__))
                    return n
            pt = [float(t) for t in sol.bestTrials[0].point.floatVariables]
            if not all(float(lo[j]) <= pt[j] <= float(up[j]) for j in range(N)):
                out.append(dict(what="returned point outside the box (integer-typed bounds)", point=pt))
                return n
    # boxes with a pinned coordinate (lower == upper: the usual way to freeze a parameter), objective not minimal there
    for N, lo, up, kind in ((2, [0.0, 0.5], [1.0, 0.5], 1), (3, [-1.0, 2.0, 0.0], [1.0, 2.0, 3.0], 7), (2, [0.25, -1.0], [0.25, 2.0], 1)):
        p = RecProblem(N, lo, up, kind)
        s = Solver(p, SolverParameters(r=2.5, eps=0.05, itersLimit=60, refineSolution=True))
        sol, _ = quiet(s.Solve)
        n += 1
        for y, v in p.log:
            if not all(float(lo[j]) - 1e-12 <= y[j] <= float(up[j]) + 1e-12 for j in range(N)):
                out.append(dict(what="objective evaluated outside a box with a pinned coordinate", point=list(y), lower=lo, upper=up,
                                N=N, kind=kind))
                return n
        pt = [float(t) for t in sol.bestTrials[0].point.floatVariables]
        if not all(float(lo[j]) <= pt[j] <= float(up[j]) for j in range(N)):
            out.append(dict(what="returned point outside a box with a pinned coordinate", point=pt, lower=lo, upper=up))
            return n
    # anytime use: a few global iterations, a short refinement, repeated (the incumbent may move to another basin in between)
    for N in (1, 2):
        p = RecProblem(N, [0.0] * N, [1.0] * N, 8)
        s = Solver(p, SolverParameters(r=3.0, eps=0.001, itersLimit=1000))
        phase_of = []
        for rnd in range(12):
            k0 = len(p.log)
            quiet(s.DoGlobalIteration, 10)
            phase_of += ["g"] * (len(p.log) - k0)
            sol = s.GetResults()
            pt0 = [float(t) for t in sol.bestTrials[0].point.floatVariables]
            val0 = float(sol.bestTrials[0].functionValues[0].value)
            if abs(val0 - p.f(pt0)) > 1e-12:
                out.append(dict(what="after further global iterations following a refinement the reported value differs from the "
                                     "objective at the reported point", round=rnd, N=N, point=pt0, value=val0, objective_at_point=p.f(pt0)))
                return n
            k0 = len(p.log)
            quiet(s.DoLocalRefinement, 10)
            phase_of += ["l"] * (len(p.log) - k0)
            n += 1
            sol = s.GetResults()
            pt = [float(t) for t in sol.bestTrials[0].point.floatVariables]
            val = float(sol.bestTrials[0].functionValues[0].value)
            gbest = min(v for (y, v), ph in zip(p.log, phase_of) if ph == "g")
            if any(not all(-1e-12 <= t <= 1 + 1e-12 for t in y) for y, _ in p.log) or not all(0 <= t <= 1 for t in pt) \
                    or abs(val - p.f(pt)) > 1e-12 or val > gbest + 1e-12:
                out.append(dict(what="repeated (global iterations, refinement): evaluation / result outside the box, reported value "
                                     "differs from the objective at the returned point, or refinement returned a value worse "
                                     "than the best global-phase trial", round=rnd, N=N, point=pt, value=val, best_global=gbest))
                return n
    return n


def main():
    req = json.load(sys.stdin)
    out = []
    try:
        n = globals()[req["mode"]](req, out)
    except Exception as e:
        import traceback
        out.append(dict(what="oracle exception %r" % (e,), trace=traceback.format_exc()[-900:]))
        n = 0
    print(json.dumps({"failures": out[:5], "evaluated": n}, default=str))


main()
