"""Native replay oracle for the evolvent properties (C07, C08, C09, C17): evaluates the property statements on the
REAL iOpt.evolvent.Evolvent (PYTHONPATH = repo under test).  stdin: JSON request, stdout: last line JSON.

request: {"mode": "c07"|"c08"|"c09"|"c17", "cases": [{"N":..,"m":..,"lower":[..],"upper":[..],"xs":[..]}, ...]}
reply:   {"failures": [ {what, N, m, lower, upper, x, observed, expected}, ... ], "evaluated": n}
Only used to replay counter-models / to look for a failing input after an obligation failed, and as the
CPython cross-check of the executor; never the deciding step of a proof."""
import sys, math, json, math
from fractions import Fraction as F
import numpy as np
from iOpt.evolvent.evolvent import Evolvent

TOL = 1e-9


def mk(case):
    N, m = case["N"], case["m"]
    lo = case.get("lower") or [-0.5] * N
    up = case.get("upper") or [0.5] * N
    if case.get("via_setbounds") == "near":
        # history: re-bound to a box that differs from the previous one by less than typical comparison tolerances
        ev = Evolvent(np.array([l - 5e-4 for l in lo], dtype=float), np.array([u - 5e-4 for u in up], dtype=float), N, m)
        ev.GetImage(0.25)
        ev.SetBounds(np.array(lo, dtype=float), np.array(up, dtype=float))
        return ev, N, m, lo, up
    if case.get("via_setbounds"):
        # history: constructed for another box, then re-bound (the property holds for the configured bounds)
        # (the first box is given the way the shipped tests write bounds: plain integers)
        ev = Evolvent([int(math.floor(l)) - 3 for l in lo], [int(math.ceil(u)) + 5 for u in up], N, m)
        ev.GetImage(0.25)
        ev.SetBounds(np.array(lo, dtype=float), np.array(up, dtype=float))
        return ev, N, m, lo, up
    if case.get("dtype"):
        # bounds handed over as arrays of another float type (float32 arrays come from ML pipelines)
        return Evolvent(np.array(lo, dtype=case["dtype"]), np.array(up, dtype=case["dtype"]), N, m), N, m, lo, up
    return Evolvent(np.array(lo, dtype=float), np.array(up, dtype=float), N, m), N, m, lo, up


def cell_of(y, N, m, lo, up):
    """(cell indices, ok) for a box point that should be a cell centre"""
    ks = []
    ok = True
    for i in range(N):
        t = (float(y[i]) - lo[i]) / (up[i] - lo[i]) * 2 ** m - 0.5
        k = round(t)
        if abs(t - k) > 1e-6 * max(1.0, 2 ** m * 1e-9 * 1e3) and abs(t - k) > 1e-6:
            ok = False
        if not (0 <= k < 2 ** m):
            ok = False
        ks.append(int(k))
    return tuple(ks), ok


def sub_index(x, N, m):
    if x >= 1:
        return 2 ** (N * m) - 1
    return int(math.floor(F(x) * 2 ** (N * m)))


def c07(case, out):
    ev, N, m, lo, up = mk(case)
    seen = {}
    n = 0
    for qi, x in enumerate(case["xs"]):
        if qi % 3 == 1:
            # history: a preimage query on the same object before the image query (C07 holds for every history)
            yq = np.array([lo[i] + (0.1 + 0.8 * ((qi * 7 + i * 3) % 10) / 10.0) * (up[i] - lo[i]) for i in range(N)])
            (ev.GetInverseImage if qi % 2 else ev.GetPreimages)(yq)
        if qi % 7 == 3:
            # history: "where does the curve pass the corners of the box?" asked with the object's own bound arrays
            ev.GetPreimages(ev.lowerBoundOfFloatVariables)
            ev.GetInverseImage(ev.upperBoundOfFloatVariables)
        y = ev.GetImage(x)
        n += 1
        inbox = all(lo[i] - TOL * (up[i] - lo[i]) <= y[i] <= up[i] + TOL * (up[i] - lo[i]) for i in range(N))
        if not inbox:
            out.append(dict(what="image outside the box", N=N, m=m, lower=lo, upper=up, x=x, observed=list(map(float, y))))
            continue
        if N == 1 and not case.get("strictN1"):
            continue
        ks, ok = cell_of(y, N, m, lo, up)
        idx = sub_index(x, N, m)
        if not ok:
            out.append(dict(what="image is not the centre of a grid cell", N=N, m=m, lower=lo, upper=up, x=x,
                            observed=list(map(float, y))))
            continue
        if idx in seen and seen[idx][0] != ks:
            out.append(dict(what="two points of one subinterval map to different cells", N=N, m=m, lower=lo, upper=up,
                            x=x, x2=seen[idx][1], observed=[list(ks), list(seen[idx][0])], subinterval=idx))
        seen.setdefault(idx, (ks, x))
    # injectivity among the sampled subintervals
    inv = {}
    for idx, (ks, x) in seen.items():
        if ks in inv and inv[ks][0] != idx:
            out.append(dict(what="different subintervals map to the same cell", N=N, m=m, lower=lo, upper=up, x=x,
                            x2=inv[ks][1], observed=list(ks), subintervals=[idx, inv[ks][0]]))
        inv.setdefault(ks, (idx, x))
    return n


def c08(case, out):
    ev, N, m, lo, up = mk(case)
    n = 0
    if N == 1:
        return 0
    D = 2 ** N
    for x in case["xs"]:
        idx = sub_index(x, N, m)
        if idx + 1 >= D ** m:
            continue
        xa = float(F(idx, D ** m) + F(1, 2 * D ** m))
        xb = float(F(idx + 1, D ** m) + F(1, 2 * D ** m))
        if n % 6 == 2:
            # history (the property holds after any sequence of queries on the same object): the same image asked twice
            # with an inverse query in between
            ev.GetImage(xa)
            ev.GetInverseImage(np.array([lo[i] + 0.37 * (up[i] - lo[i]) for i in range(N)]))
        ya, yb = ev.GetImage(xa), ev.GetImage(xb)
        n += 2
        ka, oka = cell_of(ya, N, m, lo, up)
        kb, okb = cell_of(yb, N, m, lo, up)
        d = [abs(a - b) for a, b in zip(ka, kb)]
        if not (oka and okb and sorted(d) == [0] * (N - 1) + [1]):
            out.append(dict(what="consecutive subintervals do not map to face-adjacent cells", N=N, m=m, lower=lo,
                            upper=up, x=xa, x2=xb, observed=[list(ka), list(kb)], subinterval=idx))
        # nesting: density m+1 cells of the children lie in the density-m cell
        if N * (m + 1) <= 50:
            ev2 = Evolvent(np.array(lo, dtype=float), np.array(up, dtype=float), N, m + 1)
            for c in range(D):
                xc = float(F(idx * D + c, D ** (m + 1)) + F(1, 2 * D ** (m + 1)))
                yc = ev2.GetImage(xc)
                n += 1
                kc, okc = cell_of(yc, N, m + 1, lo, up)
                if not okc or tuple(k // 2 for k in kc) != ka:
                    out.append(dict(what="density m+1 cell not inside the density-m cell of its subinterval", N=N, m=m,
                                    lower=lo, upper=up, x=xc, observed=[list(kc), list(ka)], subinterval=idx, child=c))
    return n


def c09(case, out):
    ev, N, m, lo, up = mk(case)
    n = 0
    D = 2 ** N
    for x in case["xs"]:
        y = ev.GetImage(x)
        for name in ("GetInverseImage", "GetPreimages"):
            xi = getattr(ev, name)(np.copy(y))
            n += 1
            if N == 1:
                exp = x
                if abs(xi - exp) > 1e-9:
                    out.append(dict(what="N=1: %s(GetImage(x)) != x" % name, N=N, m=m, lower=lo, upper=up, x=x,
                                    observed=float(xi), expected=exp))
                continue
            exp = float(F(sub_index(x, N, m), D ** m))
            if abs(xi - exp) > 1e-12:
                out.append(dict(what="%s(GetImage(x)) is not x rounded down to the subinterval grid" % name, N=N, m=m,
                                lower=lo, upper=up, x=x, observed=float(xi), expected=exp))
    for yq in case.get("ys", []):
        yv = np.array(yq, dtype=float)
        for name in ("GetInverseImage", "GetPreimages"):
            xi = getattr(ev, name)(np.copy(yv))
            n += 1
            if N == 1:
                exp = (yq[0] - lo[0]) / (up[0] - lo[0])
                if abs(xi - exp) > 1e-9:
                    out.append(dict(what="N=1: %s(y) is not the affine inverse" % name, N=N, m=m, lower=lo, upper=up, y=yq,
                                    observed=float(xi), expected=exp))
                continue
            y2 = ev.GetImage(xi)
            bad = False
            t = xi * D ** m
            if abs(t - round(t)) > 1e-6:
                bad = True
            for i in range(N):
                half = (up[i] - lo[i]) / 2 ** (m + 1)
                if abs(float(y2[i]) - yq[i]) > half * (1 + 1e-6) + 1e-12:
                    bad = True
            if bad:
                out.append(dict(what="image(%s(y)) is not the centre of y's cell / result not a subinterval left end" % name,
                                N=N, m=m, lower=lo, upper=up, y=yq, observed=[float(xi), list(map(float, y2))]))
    return n


def c17(case, out):
    ev, N, m, lo, up = mk(case)
    n = 0
    xs = case["xs"][:8]
    # history independence, argument preservation, result stability
    for x in xs:
        fresh = Evolvent(np.array(lo, dtype=float), np.array(up, dtype=float), N, m)
        y_ref = fresh.GetImage(x)
        y_keep = np.copy(y_ref)
        for other in xs:
            ev.GetImage(other)
            yo = ev.GetImage(other)
            yarg = np.copy(yo)
            ev.GetInverseImage(yarg)
            n += 2
            if not np.array_equal(yarg, yo):
                out.append(dict(what="GetInverseImage modified its argument", N=N, m=m, lower=lo, upper=up, x=other))
            yarg2 = np.copy(yo)
            ev.GetPreimages(yarg2)
            if not np.array_equal(yarg2, yo):
                out.append(dict(what="GetPreimages modified its argument", N=N, m=m, lower=lo, upper=up, x=other))
        y_now = ev.GetImage(x)
        n += 1
        if not np.array_equal(y_now, y_ref):
            out.append(dict(what="GetImage depends on earlier queries", N=N, m=m, lower=lo, upper=up, x=x,
                            observed=list(map(float, y_now)), expected=list(map(float, y_ref))))
        first = ev.GetImage(x)
        keep = np.copy(first)
        ev.GetImage(xs[0])
        ev.GetInverseImage(np.copy(keep))
        ev.GetPreimages(np.copy(keep))
        if not np.array_equal(first, keep):
            out.append(dict(what="array returned by an earlier query was changed by a later one", N=N, m=m, lower=lo,
                            upper=up, x=x, observed=list(map(float, first)), expected=list(map(float, keep))))
        # SetBounds: results must follow the configured bounds, whatever was queried before
        lo2 = [l - 1.0 for l in lo]
        up2 = [u + 2.0 for u in up]
        e3 = Evolvent(np.array(lo2, dtype=float), np.array(up2, dtype=float), N, m)
        for order in (0, 1, 2):
            for q in ("GetImage", "GetInverseImage", "GetPreimages"):
                # each query is the FIRST one after SetBounds on its own object (history order 0/1/2 before it)
                e2 = Evolvent(np.array(lo, dtype=float), np.array(up, dtype=float), N, m)
                if order == 1:
                    e2.GetImage(x)
                if order == 2:
                    e2.GetInverseImage(np.copy(keep))
                blo, bup = np.array(lo2, dtype=float), np.array(up2, dtype=float)
                e2.SetBounds(blo, bup)
                blo[0] += 100.0          # the caller's arrays stay the caller's
                arg = x if q == "GetImage" else np.copy(e3.GetImage(x))
                r2 = getattr(e2, q)(arg if q == "GetImage" else np.copy(arg))
                r3 = getattr(e3, q)(arg if q == "GetImage" else np.copy(arg))
                n += 1
                if not np.array_equal(np.asarray(r2), np.asarray(r3)):
                    out.append(dict(what="%s after SetBounds differs from a fresh object with the same bounds "
                                         "(history order %d)" % (q, order), N=N, m=m, lower=lo2, upper=up2, x=x,
                                    observed=np.asarray(r2).tolist(), expected=np.asarray(r3).tolist()))
    return n


def main():
    req = json.load(sys.stdin)
    out = []
    n = 0
    fn = {"c07": c07, "c07n1": c07, "c08": c08, "c09": c09, "c17": c17}[req["mode"]]
    for case in req["cases"]:
        if req["mode"] == "c07n1":
            case["strictN1"] = True
        try:
            n += fn(case, out)
        except Exception as e:
            out.append(dict(what="exception %r" % (e,), N=case.get("N"), m=case.get("m"), lower=case.get("lower"),
                            upper=case.get("upper"), x=None))
        for f in out:
            if case.get("via_setbounds"):
                f.setdefault("via_setbounds", True)
        if len(out) > 20:
            break
    print(json.dumps({"failures": out[:20], "evaluated": n}))


main()
