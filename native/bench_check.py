"""Benchmark-family obligations (C10, C18) discharged natively under /venv/bin/python against the REAL iOpt:
  * constructor post-conditions (metadata contract) evaluated on EVERY member of every finite family (exhaustive);
  * 'forall x in box' obligations on the real `Calculate`, executed on outward-rounded intervals (pyvc/ival.py) with
    branch and bound.
stdin: {"mode": "meta"|"tables"|"optimum", "families": [...], "sample": null|int, "jobs": int}
stdout (last line): {"results": [{"name", "count", "failures": [...], "undecided": [...]}], ...}"""
import sys, os, json, math, importlib.util, time
import multiprocessing as mp
import numpy as np

HERE = os.path.dirname(os.path.dirname(os.path.abspath(__file__)))
spec = importlib.util.spec_from_file_location("ival", os.path.join(HERE, "pyvc", "ival.py"))
ival = importlib.util.module_from_spec(spec)
spec.loader.exec_module(ival)
I, D = ival.I, ival.D

from iOpt.trial import Point, FunctionValue, FunctionType
import iOpt.problems.hill as hill_m, iOpt.problems.shekel as shekel_m, iOpt.problems.shekel4 as shekel4_m
import iOpt.problems.rastrigin as rast_m, iOpt.problems.xsquared as xsq_m, iOpt.problems.stronginC3 as sc3_m
import iOpt.problems.grishagin as grish_m, iOpt.problems.GKLS as gkls_m
import iOpt.problems.grishagin_function.grishagin_function as grishf_m
import iOpt.problems.Hill.hill_generation as hillGen
import iOpt.problems.Shekel.shekel_generation as shekelGen


def families():
    return {
        "Hill": (hill_m.Hill, [(i,) for i in range(1000)]),
        "Shekel": (shekel_m.Shekel, [(i,) for i in range(1000)]),
        "Grishagin": (grish_m.Grishagin, [(i,) for i in range(1, 101)]),
        "GKLS": (gkls_m.GKLS, [(d, k) for d in range(2, 6) for k in range(1, 101)]),
        "Shekel4": (shekel4_m.Shekel4, [(i,) for i in (1, 2, 3)]),
        "Rastrigin": (rast_m.Rastrigin, [(d,) for d in range(1, 6)]),
        "XSquared": (xsq_m.XSquared, [(d,) for d in range(1, 6)]),
        "StronginC3": (sc3_m.StronginC3, [()]),
    }


# ----------------------------------------------------------------------------- C18 metadata contract
def meta_contract(p):
    """the constructor post-condition of C18, evaluated on the real object; returns list of violated clauses"""
    bad = []
    d = p.dimension
    if not (isinstance(d, (int, np.integer)) and d >= 1):
        bad.append("dimension >= 1")
        return bad
    if p.numberOfFloatVariables != d:
        bad.append("numberOfFloatVariables == dimension")
    for nm in ("floatVariableNames", "lowerBoundOfFloatVariables", "upperBoundOfFloatVariables"):
        if len(getattr(p, nm)) != d:
            bad.append("len(%s) == dimension" % nm)
    lo, up = np.asarray(p.lowerBoundOfFloatVariables, dtype=float), np.asarray(p.upperBoundOfFloatVariables, dtype=float)
    if len(lo) == d and len(up) == d and not np.all(lo < up):
        bad.append("lower < upper")
    if p.numberOfObjectives != 1:
        bad.append("numberOfObjectives == 1")
    ko = p.knownOptimum
    if len(ko) != 1:
        bad.append("len(knownOptimum) == 1")
        return bad
    pt = np.asarray(ko[0].point.floatVariables, dtype=float)
    if len(pt) != d:
        bad.append("len(knownOptimum point) == dimension")
    elif len(lo) == d and not (np.all(lo <= pt) and np.all(pt <= up)):
        bad.append("lower <= knownOptimum point <= upper")
    if len(ko[0].functionValues) < 1 or not math.isfinite(float(ko[0].functionValues[0].value)):
        bad.append("knownOptimum has one finite value")
    return bad


def job_meta(arg):
    fam, args = arg
    cls = families()[fam][0]
    try:
        p = cls(*args)
        bad = meta_contract(p)
    except Exception as e:
        bad = ["constructor raised %r" % (e,)]
    return (fam, args, bad)


# ----------------------------------------------------------------------------- interval evaluation of the real Calculate
MODS = {"Hill": (hill_m,), "Shekel": (shekel_m,), "Shekel4": (shekel4_m,), "Rastrigin": (rast_m,), "XSquared": (xsq_m,),
        "StronginC3": (sc3_m,), "Grishagin": (grish_m, grishf_m)}


def make_feval(fam, p, sign=1.0, deriv=False, constraint=None):
    mods = MODS[fam]

    def feval(xs):
        fv = FunctionValue() if constraint is None else FunctionValue(FunctionType.CONSTRAINT, constraint)
        with ival.shimmed(*mods):
            if deriv:
                r = p.Calculate(Point([D(xs[0], I(np.ones_like(xs[0].lo)))], []), fv).value
                r = r.d
            else:
                r = p.Calculate(Point(list(xs), []), fv).value
                if not isinstance(r, I):
                    r = I.lift(r)          # a constant returned on a decided branch
        return r if sign > 0 else -r
    return feval


def point_enclosure(fam, p, x, deriv=False):
    f = make_feval(fam, p, 1.0, deriv)
    r = f([I(np.array([float(t)])) for t in x])
    return float(np.min(r.lo)), float(np.max(r.hi))


def job_tables(arg):
    """the interval obligations; a data-dependent branch in the evaluated code makes them undecided and the real Calculate is
    evaluated natively (at the table locations and on a closed grid) for a failing input - only a refutation counts"""
    try:
        return job_tables_ival(arg)
    except TypeError as e:
        if "interval" not in str(e):
            raise
    fam, fn = arg
    gen = hillGen if fam == "Hill" else shekelGen
    p = families()[fam][0](fn)
    lo, up = float(p.lowerBoundOfFloatVariables[0]), float(p.upperBoundOfFloatVariables[0])
    tmin = gen.minHill[fn] if fam == "Hill" else gen.minShekel[fn]
    tmax = gen.maxHill[fn]

    def calc(x):
        return float(p.Calculate(Point(np.array([x], dtype=np.double), []), FunctionValue()).value)
    out, und = [], ["%s %d: Calculate has a data-dependent branch on the point: interval evaluation not applicable" % (fam, fn)]
    grid = [calc(x) for x in np.linspace(lo, up, 4001)]
    for kind, (val, loc), agg in (("min", tmin, min), ("max", tmax, max)):
        val, loc = float(val), float(loc)
        v = calc(loc)
        if not abs(v - val) <= 1e-4:
            out.append(dict(what="%s %d: f(table %s location %.6f) = %r differs from the table value %.7f by more than 1e-4 "
                                 "(native evaluation)" % (fam, fn, kind, loc, v, val)))
            continue
        g = agg(grid)
        if (kind == "min" and g < val - 1e-4) or (kind == "max" and g > val + 1e-4):
            out.append(dict(what="%s %d: table %s value %.7f is not the %simum (grid value %.7f)" % (fam, fn, kind, val, kind, g)))
    return (fam, (fn,), out, und)


def job_tables_ival(arg):
    """C18: published minimum / maximum / Lipschitz tables of Hill and Shekel agree with the functions"""
    fam, fn = arg
    gen = hillGen if fam == "Hill" else shekelGen
    cls = families()[fam][0]
    p = cls(fn)
    lo, up = float(p.lowerBoundOfFloatVariables[0]), float(p.upperBoundOfFloatVariables[0])
    rng = up - lo
    tmin = gen.minHill[fn] if fam == "Hill" else gen.minShekel[fn]
    tmax = gen.maxHill[fn]
    L = float(gen.lConstantHill[fn])
    out, und = [], []
    for kind, (val, loc), sign in (("min", tmin, 1.0), ("max", tmax, -1.0)):
        val, loc = float(val), float(loc)
        f = make_feval(fam, p, sign)
        # value: f >= val - 1e-4 everywhere (for max: -f >= -val - 1e-4) and f(loc) <= val + 1e-4
        r = ival.lower_bound_proof(f, [lo], [up], sign * val - 1e-4)
        if r["status"] == "witness":
            out.append(dict(what="%s %d: table %s value %.7f is not the %simum (f(%.6f) = %.7f)" % (fam, fn, kind, val, kind,
                                                                                                   r["witness"][0], sign * r["value"])))
            continue
        if r["status"] != "proved":
            und.append("%s %d %s value: %s" % (fam, fn, kind, r.get("reason")))
        l_, h_ = point_enclosure(fam, p, [loc])
        fl = h_ if sign > 0 else -l_          # upper bound of sign*f(loc)
        if fl > sign * val + 1e-4:
            out.append(dict(what="%s %d: f(table %s location %.6f) = %.7f differs from the table value %.7f by more than 1e-4"
                                 % (fam, fn, kind, loc, sign * fl, val)))
            continue
        # location: every global %s lies within 1e-4*rng of the table location, i.e. outside that ball the function stays
        # strictly above the best value attained inside it
        rad = 1e-4 * rng
        xin = np.linspace(max(lo, loc - rad), min(up, loc + rad), 2001)
        vin = f([I(xin)])
        m_in = float(np.min(vin.hi))                      # an upper bound of the minimum over the ball
        r2 = ival.lower_bound_proof(f, [lo], [up], np.nextafter(m_in, 1e300), exclude=([loc], rad), min_width=1e-11)
        if r2["status"] == "witness":
            # genuine only if the witness beats a rigorous LOWER bound of the function over the whole ball
            cells = np.linspace(max(lo, loc - rad), min(up, loc + rad), 8193)
            lb_in = float(np.min(f([I(cells[:-1], cells[1:])]).lo))
            if r2["value"] < lb_in:
                out.append(dict(what="%s %d: the %simum is attained at x = %.7f, farther than 1e-4 of the range from the table "
                                     "location %.6f" % (fam, fn, kind, r2["witness"][0], loc)))
            else:
                und.append("%s %d %s location: tie between the ball and x = %.7f" % (fam, fn, kind, r2["witness"][0]))
        elif r2["status"] != "proved":
            und.append("%s %d %s location: %s" % (fam, fn, kind, r2.get("reason")))
    # Lipschitz constant: max |f'| within 0.1% of the table
    for sign in (1.0, -1.0):
        fd = make_feval(fam, p, -sign, deriv=True)      # prove  -sign*f' >= -L(1+1e-3)  i.e.  sign*f' <= L(1+1e-3)
        r = ival.lower_bound_proof(fd, [lo], [up], -L * (1 + 1e-3))
        if r["status"] == "witness":
            out.append(dict(what="%s %d: |f'(%.6f)| exceeds the table constant %.6f by more than 0.1%%" % (fam, fn, r["witness"][0], L)))
        elif r["status"] != "proved":
            und.append("%s %d Lipschitz upper: %s" % (fam, fn, r.get("reason")))
    xs = np.linspace(lo, up, 20001)
    fdv = make_feval(fam, p, 1.0, deriv=True)([I(xs)])
    best = float(np.max(np.maximum(fdv.lo, -fdv.hi)))      # rigorous lower bound of max |f'| over the sample points
    if best < L * (1 - 1e-3):
        # refine around the best sample
        k = int(np.argmax(np.maximum(np.abs(fdv.lo), np.abs(fdv.hi))))
        xs2 = np.linspace(max(lo, xs[k] - 1e-4 * rng), min(up, xs[k] + 1e-4 * rng), 4001)
        fdv2 = make_feval(fam, p, 1.0, deriv=True)([I(xs2)])
        best = max(best, float(np.max(np.maximum(fdv2.lo, -fdv2.hi))))
    if best < L * (1 - 1e-3):
        out.append(dict(what="%s %d: table Lipschitz constant %.6f exceeds max |f'| (>= %.6f found) by more than 0.1%%" % (fam, fn, L, best)))
    return (fam, (fn,), out, und)


def _sibling(fam, args):
    """a second instance of the same family, constructed AFTER the examined one and evaluated once (the declared data of an
    instance must not depend on which other instances exist)"""
    cls, members = families()[fam]
    members = [tuple(m) for m in members]
    if len(members) < 2:
        return None
    k = members.index(tuple(args)) if tuple(args) in members else 0
    other = members[(k + 1) % len(members)]
    try:
        q = cls(*other)
        q.Calculate(Point(np.array([float(t) for t in q.knownOptimum[0].point.floatVariables], dtype=np.double), []), FunctionValue())
        return q
    except Exception:
        return None


def job_optimum(arg):
    """the interval obligations; if the evaluated code has a data-dependent branch the interval evaluation does not apply
    (undecided) and the real Calculate is sampled natively for a failing input (bounded, only a refutation counts)"""
    try:
        return job_optimum_ival(arg)
    except TypeError as e:
        if "interval" not in str(e):
            raise
    fam, args = arg
    cls = families()[fam][0]
    p = cls(*args)
    tag = "%s%s" % (fam, tuple(args))
    lo = np.array([float(t) for t in p.lowerBoundOfFloatVariables])
    up = np.array([float(t) for t in p.upperBoundOfFloatVariables])
    xs = [float(t) for t in p.knownOptimum[0].point.floatVariables]
    fstar = float(p.knownOptimum[0].functionValues[0].value)

    def calc(x):
        return float(p.Calculate(Point(np.array(x, dtype=np.double), []), FunctionValue()).value)
    out, und = [], ["%s: Calculate has a data-dependent branch on the point: interval evaluation not applicable" % tag]
    v = calc(xs)
    if abs(v - fstar) > 1e-4 * max(1.0, abs(fstar)):
        out.append(dict(what="%s: objective at the declared optimum is %.7f, declared value %.7f" % (tag, v, fstar)))
        return (fam, args, out, und)
    rnd = np.random.RandomState(4242)
    pts = lo + rnd.rand(4000, len(lo)) * (up - lo)
    best, bx = min(((calc(x), list(map(float, x))) for x in pts), key=lambda t: t[0])
    if best < fstar - 2e-3 * max(1.0, abs(fstar)):
        out.append(dict(what="%s: f(%s) = %.7f is below the declared optimum %.7f by more than the tolerance (native sample)"
                             % (tag, bx, best, fstar)))
    return (fam, args, out, und)


def job_optimum_ival(arg):
    """C10 for the families whose Calculate runs on intervals: value at the declared optimum, no point lower by more than
    the tolerance, a global minimiser within 0.5% of the box side of the declared point"""
    fam, args = arg
    cls = families()[fam][0]
    p = cls(*args)
    sibling = _sibling(fam, args)         # another member of the family is alive while this one is examined
    lo = [float(t) for t in p.lowerBoundOfFloatVariables]
    up = [float(t) for t in p.upperBoundOfFloatVariables]
    xs = [float(t) for t in p.knownOptimum[0].point.floatVariables]
    fstar = float(p.knownOptimum[0].functionValues[0].value)
    out, und = [], []
    tag = "%s%s" % (fam, tuple(args))
    l_, h_ = point_enclosure(fam, p, xs)
    if l_ > fstar + 1e-4 or h_ < fstar - 1e-4:
        out.append(dict(what="%s: objective at the declared optimum is [%.7f, %.7f], declared value %.7f" % (tag, l_, h_, fstar)))
        return (fam, args, out, und)
    f = make_feval(fam, p, 1.0)
    budget = 3000000 if len(lo) >= 3 else (6000000 if len(lo) == 2 else 600000)
    cons = None
    if getattr(p, "numberOfConstraints", 0):
        # C10 "over its feasible set": feasible = every constraint function <= 0
        cons = [make_feval(fam, p, 1.0, constraint=k) for k in range(p.numberOfConstraints)]
        for k, g in enumerate(cons):
            gl, gh = g([I(np.array([t])) for t in xs]).lo, g([I(np.array([t])) for t in xs]).hi
            if float(np.max(gh)) > 1e-3:
                out.append(dict(what="%s: the declared optimum violates constraint %d (g = %.6f)" % (tag, k, float(np.max(gh)))))
    r = ival.lower_bound_proof(f, lo, up, fstar - 2e-3 * max(1.0, abs(fstar)), max_boxes=budget, constraints=cons)
    if r["status"] == "witness":
        out.append(dict(what="%s: f(%s) = %.7f is below the declared optimum %.7f by more than the tolerance"
                             % (tag, r["witness"], r["value"], fstar)))
    elif r["status"] != "proved":
        und.append("%s lower bound: %s" % (tag, r.get("reason")))
    # a global minimiser lies within 0.5% of the box side of the declared point: outside that ball the function is nowhere
    # below the best value attained inside it
    side = max(u - l for l, u in zip(lo, up))
    rad = 0.005 * side
    rnd = np.random.RandomState(12345)
    n_s = 4001 if len(lo) == 1 else 3000
    if len(lo) == 1:
        pts = np.linspace(max(lo[0], xs[0] - rad), min(up[0], xs[0] + rad), n_s).reshape(-1, 1)
    else:
        pts = np.array(xs) + (rnd.rand(n_s, len(lo)) * 2 - 1) * rad
        pts = np.minimum(np.maximum(pts, np.array(lo)), np.array(up))
        pts[0] = xs
    vin = f([I(pts[:, j]) for j in range(len(lo))])
    vhi = np.broadcast_to(vin.hi, (len(pts),)).copy()
    if cons:
        for g in cons:
            gv = g([I(pts[:, j]) for j in range(len(lo))])
            infeasible = np.broadcast_to(gv.hi, (len(pts),)) > 0
            infeasible[0] = False            # the declared point itself (feasibility checked above, with its tolerance)
            vhi[infeasible] = np.inf
    m_in = float(np.min(vhi))
    r2 = ival.lower_bound_proof(f, lo, up, m_in, exclude=(xs, rad), max_boxes=budget, min_width=1e-10, constraints=cons)
    if r2["status"] == "witness":
        blo = [max(l, x - rad) for l, x in zip(lo, xs)]
        bhi = [min(u, x + rad) for u, x in zip(up, xs)]
        r3 = ival.lower_bound_proof(f, blo, bhi, r2["value"], max_boxes=200000, min_width=1e-12)
        if r3["status"] == "proved":     # the whole ball stays above the outside witness: no global minimiser inside it
            out.append(dict(what="%s: f(%s) = %.7f is below every value within 0.5%% of the box side of the declared optimum"
                                 % (tag, r2["witness"], r2["value"])))
        else:
            und.append("%s minimiser location: tie between the ball and %s" % (tag, r2["witness"]))
    elif r2["status"] != "proved":
        und.append("%s minimiser location: %s" % (tag, r2.get("reason")))
    return (fam, args, out, und)


def main():
    req = json.loads(sys.stdin.read() or "{}")
    mode = req.get("mode", "meta")
    fams = req.get("families") or list(families().keys())
    sample = req.get("sample")
    jobs = []
    for fam in fams:
        cls, members = families()[fam]
        if sample and len(members) > sample:
            step = max(1, len(members) // sample)
            members = members[req.get("offset", 0) % step::step]
        for a in members:
            jobs.append((fam, a))
    fn = {"meta": job_meta, "optimum": job_optimum}.get(mode)
    if mode == "tables":
        jobs = [(fam, a[0]) for fam, a in jobs if fam in ("Hill", "Shekel")]
        fn = job_tables
    t0 = time.time()
    with mp.Pool(int(req.get("jobs", 14))) as pool:
        res = pool.map(fn, jobs, chunksize=4)
    by = {}
    for r in res:
        fam = r[0]
        e = by.setdefault(fam, dict(name=fam, count=0, failures=[], undecided=[]))
        e["count"] += 1
        if mode == "meta":
            if r[2]:
                e["failures"].append(dict(what="%s%s violates the metadata contract: %s" % (fam, tuple(r[1]), "; ".join(r[2]))))
        else:
            e["failures"] += r[2]
            e["undecided"] += r[3]
    print(json.dumps({"mode": mode, "results": list(by.values()), "seconds": round(time.time() - t0, 1)}))


if __name__ == "__main__":
    main()
