"""Native replay oracle for solver-level properties, run against the REAL iOpt (PYTHONPATH = repo under test).
stdin: {"mode": ..., "seed": int, ...}; stdout (last line): {"failures": [...], "evaluated": n}
Used only to replay counter-models / to look for a failing input after an obligation failed or became undecided."""
import sys, json, math, random, itertools, io, contextlib
import numpy as np
from iOpt.problem import Problem
from iOpt.trial import Point, FunctionValue, Trial
from iOpt.solver import Solver
from iOpt.solver_parametrs import SolverParameters


class RecProblem(Problem):
    """objective with a log of every evaluation (ground truth independent of library internals)"""

    def __init__(self, dim, lower, upper, kind=0, fail_at=None, exc=Exception):
        super().__init__()
        self.name = "rec"
        self.dimension = dim
        self.numberOfFloatVariables = dim
        self.numberOfObjectives = 1
        self.numberOfConstraints = 0
        self.floatVariableNames = np.array(["x%d" % i for i in range(dim)], dtype=str)
        self.lowerBoundOfFloatVariables = np.array(lower, dtype=np.double)
        self.upperBoundOfFloatVariables = np.array(upper, dtype=np.double)
        self.kind = kind
        self.log = []
        self.fail_at = fail_at
        self.exc = exc

    def f(self, y):
        y = [float(v) for v in y]
        k = self.kind
        if k == 0:
            return sum((v - 0.3) ** 2 for v in y)
        if k == 1:
            return sum(y)                                 # monotone: minimum in a corner
        if k == 2:
            return sum(math.sin(3 * v) + 0.1 * v for v in y)
        if k == 3:
            return 1.0                                    # flat: many equal values
        if k == 4:
            return -sum(abs(v) for v in y)
        return math.floor(3 * sum(y)) / 3.0               # plateaus with ties

    def Calculate(self, point, functionValue):
        n = len(self.log) + 1
        if self.fail_at is not None and n == self.fail_at:
            self.log.append((tuple(float(v) for v in point.floatVariables), None))
            raise self.exc("objective failure at evaluation %d" % n)
        v = self.f(point.floatVariables)
        self.log.append((tuple(float(v_) for v_ in point.floatVariables), v))
        functionValue.value = v
        return functionValue


def boxes(N):
    return [([0.0] * N, [1.0] * N), ([-2.0 + i for i in range(N)], [3.5 + 2 * i for i in range(N)])]


def on_grid(y, lo, up, m):
    for i in range(len(y)):
        t = (y[i] - lo[i]) / (up[i] - lo[i]) * 2 ** m - 0.5
        if abs(t - round(t)) > 1e-6 or not (0 <= round(t) < 2 ** m):
            return False
    return True


def quiet(fn, *a, **k):
    with contextlib.redirect_stdout(io.StringIO()):
        return fn(*a, **k)


def c20(req, out):
    n = 0
    for N in req.get("Ns", [2, 3, 4, 5]):
        for (lo, up) in boxes(N):
            # one process, several solvers on the same box with different densities (history)
            for m in req.get("ms", [10, 4, 12, 2, 7, 11]):
                p = RecProblem(N, lo, up, kind=0)
                # every documented parameter is exercised: every other run is given a start point (inside the box, off the grid)
                sp = Point(np.array([lo[j] + 0.3137 * (up[j] - lo[j]) for j in range(N)], dtype=np.double), []) if m % 2 == 0 else []
                s = Solver(p, SolverParameters(r=2.5, eps=0.01, itersLimit=40, evolventDensity=m, startPoint=sp))
                quiet(s.DoGlobalIteration, 25)
                n += 1
                bad = [y for (y, v) in p.log if not on_grid(y, lo, up, m)]
                if bad:
                    out.append(dict(what="trial coordinate not on the cell-centre grid of the configured density",
                                    N=N, m=m, lower=lo, upper=up, observed=list(bad[0]), trials=len(p.log)))
                    return n
                if s.evolvent.evolventDensity != m:
                    out.append(dict(what="evolvent density differs from SolverParameters.evolventDensity", N=N, m=m,
                                    lower=lo, upper=up, observed=int(s.evolvent.evolventDensity)))
                    return n
    return n


def run_alone(N, lo, up, kind, r, steps, m=10):
    p = RecProblem(N, lo, up, kind)
    s = Solver(p, SolverParameters(r=r, eps=1e-9, itersLimit=10 ** 6, evolventDensity=m))
    for k in steps:
        quiet(s.DoGlobalIteration, k)
    return p, s


def snapshot(sol):
    bt = sol.bestTrials[0]
    return (tuple(float(v) for v in bt.point.floatVariables), float(bt.functionValues[0].value), int(sol.numberOfGlobalTrials))


def c12(req, out):
    """interleavings of two or three solvers vs. each one alone; earlier Solutions keep their optimum"""
    n = 0
    rnd = random.Random(req.get("seed", 0))
    configs = [(1, 0, 2.0), (2, 2, 3.0), (3, 0, 2.5), (2, 5, 2.0), (6, 0, 2.0)]
    for trial in range(req.get("trials", 12)):
        k = rnd.choice([2, 2, 3])
        cfgs = [rnd.choice(configs) for _ in range(k)]
        total = [rnd.randint(2, 7) for _ in range(k)]
        order = []
        for i in range(k):
            order += [i] * total[i]
        rnd.shuffle(order)
        if trial == 0:
            order = sorted(order)             # sequential use as a control
        # alone
        ref = []
        for (N, kind, r), t in zip(cfgs, total):
            lo, up = boxes(N)[1]
            p, s = run_alone(N, lo, up, kind, r, [1] * t)
            ref.append((list(p.log), snapshot(s.GetResults())))
        # interleaved, default parameters object shared where r is the default
        probs, solvers, sols = [], [], []
        for (N, kind, r) in cfgs:
            lo, up = boxes(N)[1]
            p = RecProblem(N, lo, up, kind)
            probs.append(p)
            solvers.append(Solver(p, SolverParameters(r=r, eps=1e-9, itersLimit=10 ** 6)))
        early = {}
        for step, i in enumerate(order):
            quiet(solvers[i].DoGlobalIteration, 1)
            if i not in early and rnd.random() < 0.5:
                early[i] = (solvers[i].GetResults(), snapshot(solvers[i].GetResults()), len(probs[i].log))
        n += 1
        for i in range(k):
            if probs[i].log != ref[i][0]:
                j = next((a for a in range(min(len(probs[i].log), len(ref[i][0]))) if probs[i].log[a] != ref[i][0][a]),
                         min(len(probs[i].log), len(ref[i][0])))
                out.append(dict(what="trial sequence of a solver differs between interleaved and stand-alone execution",
                                solver=i, configs=cfgs, order=order, first_difference_at_trial=j + 1,
                                observed=probs[i].log[j:j + 1], expected=ref[i][0][j:j + 1]))
                return n
            if snapshot(solvers[i].GetResults()) != ref[i][1]:
                out.append(dict(what="result of a solver differs between interleaved and stand-alone execution", solver=i,
                                configs=cfgs, order=order, observed=snapshot(solvers[i].GetResults()), expected=ref[i][1]))
                return n
        # a Solution object of solver i reports solver i's optimum, not another solver's
        for i in range(k):
            for j in range(k):
                if i != j and solvers[i].GetResults().bestTrials is solvers[j].GetResults().bestTrials:
                    out.append(dict(what="two solvers share one bestTrials list", configs=cfgs, order=order))
                    return n
    # default-constructed solvers (shared default SolverParameters object) and problems of higher dimension first
    p6 = RecProblem(6, *boxes(6)[0], kind=0)
    s6 = Solver(p6)
    pa, sa = RecProblem(2, *boxes(2)[0], kind=0), None
    sa = Solver(pa)
    quiet(sa.DoGlobalIteration, 5)
    pb = RecProblem(2, *boxes(2)[0], kind=0)
    sb = Solver(pb, SolverParameters())
    quiet(sb.DoGlobalIteration, 5)
    n += 1
    if pa.log != pb.log:
        out.append(dict(what="a solver created earlier (dimension 6, default parameters) changed the trial sequence of a "
                             "later default-constructed solver", observed=pa.log[:2], expected=pb.log[:2]))
    # ONE parameters object (with a start point, refinement on) shared by two solvers: the user's objects are inputs - a
    # solver must leave them as it found them, and the second solver must behave as if it were alone
    for N in (1, 2):
        lo, up = boxes(N)[0]
        spv = [lo[j] + 0.3137 * (up[j] - lo[j]) for j in range(N)]
        par = SolverParameters(r=2.5, eps=0.05, itersLimit=60, refineSolution=True,
                               startPoint=Point(np.array(spv, dtype=np.double), []))
        pa = RecProblem(N, lo, up, kind=0)
        sa = Solver(pa, par)
        sola = quiet(sa.Solve)
        snap_a = snapshot(sola)
        n += 1
        now = [float(t) for t in par.startPoint.floatVariables]
        if now != spv or (par.r, par.eps, par.itersLimit, par.refineSolution) != (2.5, 0.05, 60, True):
            out.append(dict(what="a solver modified the SolverParameters object it was given (shared with other solvers)",
                            start_point_before=spv, start_point_after=now))
            return n
        pb = RecProblem(N, lo, up, kind=0)
        sb = Solver(pb, par)
        solb = quiet(sb.Solve)
        pc = RecProblem(N, lo, up, kind=0)
        sc_ = Solver(pc, SolverParameters(r=2.5, eps=0.05, itersLimit=60, refineSolution=True,
                                          startPoint=Point(np.array(spv, dtype=np.double), [])))
        solc = quiet(sc_.Solve)
        if pb.log != pc.log or snapshot(solb) != snapshot(solc):
            out.append(dict(what="a solver sharing its parameters object with an earlier solver behaves differently from the "
                                 "same solver run alone", observed=snapshot(solb), expected=snapshot(solc)))
            return n
        if snapshot(sola) != snap_a:
            out.append(dict(what="a Solution returned earlier changed after another solver (same parameters object) ran",
                            before=snap_a, after=snapshot(sola)))
            return n
    return n


def main():
    req = json.load(sys.stdin)
    out = []
    fn = globals()[req["mode"]]
    try:
        n = fn(req, out)
    except Exception as e:
        import traceback
        out.append(dict(what="exception %r" % (e,), trace=traceback.format_exc()[-800:]))
        n = 0
    print(json.dumps({"failures": out[:10], "evaluated": n}, default=str))


main()
