"""Library-surface obligations: every attribute of numpy / math / scipy / sys ... that a verified function touches must
exist in the libraries installed for iOpt (/venv).  stdin: {"items": [[module, attr], ...]} -> {"missing": [...]}"""
import sys, json, importlib, warnings
warnings.simplefilter("ignore")
req = json.load(sys.stdin)
missing, ok = [], []
for mod, attr in req["items"]:
    try:
        parts = mod.split(".")
        m = importlib.import_module(parts[0])
        for p in parts[1:]:
            m = getattr(m, p)
        getattr(m, attr)
        ok.append([mod, attr])
    except Exception as e:
        missing.append([mod, attr, repr(e)[:200]])
print(json.dumps({"missing": missing, "ok": ok}))
