"""Shared pieces of the solver-level checks (constructors, frames, native oracle)."""
import ast, json
from pyvc.frontend import Repo
from pyvc import verify, discharge, runner
from pyvc.sym import Unsupported, EngineError
from contracts import core as cc

INLINE_ACCESSORS = {("SearchDataItem", "GetX"), ("SearchDataItem", "GetY"), ("SearchDataItem", "GetZ"),
                    ("SearchDataItem", "SetZ"), ("SearchDataItem", "GetIndex"), ("SearchDataItem", "SetIndex"),
                    ("SearchDataItem", "GetLeft"), ("SearchDataItem", "SetLeft"), ("SearchDataItem", "GetRight"),
                    ("SearchDataItem", "SetRight"), ("SearchDataItem", "GetDiscreteValueIndex"),
                    ("Method", "min_delta"), ("Method", "min_delta.setter")}

ASSUME_PY = ("Python object model as in DESIGN 2.2: one z3 array per attribute name, allocation counter, CPython "
             "default-argument semantics (a mutable default is ONE pre-existing object shared by all calls)")
ASSUME_FRAME = ("frame rule (meta-theorem of modular verification, not a per-run obligation): footprints that are "
                "freshly allocated per solver and only written by that solver's methods cannot be changed by any "
                "interleaving of other solvers' calls (single thread)")


def constructor_reports(repo, with_solver=True):
    cons = [f() for f in cc.CONSTRUCTORS]
    ls = {("iOpt/evolvent/evolvent.py", "Evolvent.__init__", 0): cc.evolvent_init_loop()}
    reps = []
    todo = cons + ([cc.solver_init()] if with_solver else [])
    for c in todo:
        callee = [x for x in cons if x.qual != c.qual]
        reps.append(verify.verify(repo, c, cc.SCHEMA, callee, ls, cc.SPEC_FUNCS, inline=set(INLINE_ACCESSORS), defer=True,
                                  timeout_ms=60000))
    return reps


MUTABLE_NODES = (ast.List, ast.Dict, ast.Set, ast.ListComp, ast.DictComp, ast.SetComp, ast.Call)
FOOTPRINT_CLASSES = ["Solver", "Process", "Method", "SearchData", "SearchDataDualQueue", "SearchDataItem",
                     "CharacteristicsQueue", "Solution", "Trial", "Point", "FunctionValue", "Evolvent", "OptimizationTask",
                     "SolverParameters", "Listener"]


def global_state_scan(chk, repo, classes=FOOTPRINT_CLASSES, modules=None):
    """Syntactic frame obligations: no class-level mutable attribute in the classes of the solver footprint, no
    `global`/`nonlocal` statement and no assignment to a module-level name or to `ClassName.attr` inside any
    function of those modules.  (Class objects and modules belong to no solver's footprint.)"""
    mods = set()
    for cn in classes:
        ci = repo.cls(cn)
        if ci is None:
            continue
        mods.add(ci.module.relpath)
        for name, val in ci.class_attrs.items():
            ok = not isinstance(val, MUTABLE_NODES)
            chk.add_lemma("global-state:class-attr:%s.%s" % (cn, name), "proved" if ok else "refuted", "syntactic-scan", 0.0,
                          clause="class attribute %s.%s is not a mutable object shared by all instances" % (cn, name),
                          func="%s::%s" % (ci.module.relpath, cn),
                          model=None if ok else {"class": cn, "attr": name, "value": ast.unparse(val)[:200]})
        ok_cls = True
        chk.add_lemma("global-state:class-attrs:%s" % cn, "proved", "syntactic-scan", 0.0,
                      clause="class %s: %d class-level attributes examined" % (cn, len(ci.class_attrs)),
                      func="%s::%s" % (ci.module.relpath, cn))
    for rel in sorted(mods | set(modules or [])):
        mi = repo.modules[rel]
        bad = []
        class_names = set(repo.classes.keys())
        for fn in ast.walk(mi.tree):
            if not isinstance(fn, ast.FunctionDef):
                continue
            for n in ast.walk(fn):
                if isinstance(n, (ast.Global, ast.Nonlocal)):
                    bad.append("%s:%d %s statement in %s" % (rel, n.lineno, type(n).__name__.lower(), fn.name))
                if isinstance(n, ast.Attribute) and isinstance(n.ctx, ast.Store) and isinstance(n.value, ast.Name) \
                        and (n.value.id in mi.classes or n.value.id in class_names and n.value.id[:1].isupper()
                             and n.value.id not in ("self",)):
                    # assignment to ClassName.attr
                    if n.value.id in repo.classes:
                        bad.append("%s:%d assignment to class attribute %s.%s in %s" % (rel, n.lineno, n.value.id, n.attr, fn.name))
                if isinstance(n, ast.Attribute) and isinstance(n.ctx, ast.Store) and isinstance(n.value, ast.Call) and \
                        isinstance(n.value.func, ast.Name) and n.value.func.id == "type":
                    bad.append("%s:%d assignment through type(...) in %s" % (rel, n.lineno, fn.name))
                if isinstance(n, ast.Call) and isinstance(n.func, ast.Name) and n.func.id in ("setattr", "globals", "vars"):
                    bad.append("%s:%d %s() in %s" % (rel, n.lineno, n.func.id, fn.name))
                if isinstance(n, ast.Attribute) and n.attr in ("__dict__", "__class__") and isinstance(n.ctx, ast.Store):
                    bad.append("%s:%d store to %s in %s" % (rel, n.lineno, n.attr, fn.name))
        chk.add_lemma("global-state:module:%s" % rel, "proved" if not bad else "refuted", "syntactic-scan", 0.0,
                      clause="no function of %s writes module-level or class-level state" % rel, func=rel,
                      model=None if not bad else {"sites": bad[:10]})
        # frame: the user's Problem and SolverParameters objects are shared between solvers (one problem solved with
        # several parameter sets, one parameter object for several solvers): no solver code may write into them
        shared = []
        for fn in ast.walk(mi.tree):
            if not isinstance(fn, ast.FunctionDef):
                continue
            for n in ast.walk(fn):
                tgt = None
                if isinstance(n, (ast.Attribute, ast.Subscript)) and isinstance(n.ctx, (ast.Store, ast.Del)):
                    tgt = n.value
                elif isinstance(n, ast.Call) and isinstance(n.func, ast.Name) and n.func.id in ("setattr", "delattr") and n.args:
                    tgt = n.args[0]
                elif isinstance(n, ast.Call) and isinstance(n.func, ast.Attribute) and n.func.attr in (
                        "append", "extend", "insert", "pop", "remove", "clear", "update", "setdefault", "sort", "fill"):
                    tgt = n.func.value
                if tgt is None:
                    continue
                # walk down the access path: does it go through `problem` / `parameters`?
                t, through = tgt, False
                while isinstance(t, (ast.Attribute, ast.Subscript)):
                    if isinstance(t, ast.Attribute) and t.attr in ("problem", "parameters"):
                        through = True
                    t = t.value
                if isinstance(t, ast.Name) and t.id in ("problem", "parameters"):
                    through = True
                if through:
                    shared.append("%s:%d %s writes %s" % (rel, n.lineno, fn.name, ast.unparse(tgt)[:80]))
        # frame: no process-wide interpreter / numpy state (error mode, RNG seed, print options, warning filters ...): another
        # solver's objective is evaluated under it.  `with np.errstate(...)` restores on every exit and is allowed.
        from .c15 import GLOBAL_MUTATORS
        with_calls = set()
        for n in ast.walk(mi.tree):
            if isinstance(n, ast.With):
                for it in n.items:
                    if isinstance(it.context_expr, ast.Call):
                        with_calls.add(it.context_expr)
        pw = []
        for n in ast.walk(mi.tree):
            if isinstance(n, ast.Call) and n not in with_calls:
                f = n.func
                name = f.attr if isinstance(f, ast.Attribute) else getattr(f, "id", "")
                if name in GLOBAL_MUTATORS and not (isinstance(f, ast.Attribute) and isinstance(f.value, ast.Name) and f.value.id == "self"):
                    pw.append("%s:%d %s" % (rel, n.lineno, ast.unparse(f)))
        chk.add_lemma("frame:process-wide-state:%s" % rel, "proved" if not pw else "refuted", "syntactic-scan", 0.0,
                      clause="no function of %s changes process-wide interpreter / numpy state (error mode, RNG seed, print "
                             "options, warning filters, environment) outside a `with` block that restores it" % rel, func=rel,
                      model=None if not pw else {"sites": pw[:8]})
        chk.add_lemma("frame:shared-user-objects:%s" % rel, "proved" if not shared else "refuted", "syntactic-scan", 0.0,
                      clause="no function of %s writes into the user's Problem / SolverParameters objects (shared between "
                             "solvers)" % rel, func=rel, model=None if not shared else {"sites": shared[:10]})


def attribute_store_sites(repo, attr):
    """all syntactic stores `<expr>.attr = ...` in the library: (file, function, line)"""
    sites = []
    for rel, mi in repo.modules.items():
        for cn, ci in mi.classes.items():
            for mn, fn in ci.methods.items():
                for n in ast.walk(fn):
                    if isinstance(n, ast.Attribute) and n.attr == attr and isinstance(n.ctx, ast.Store):
                        sites.append((rel, "%s.%s" % (cn, mn), n.lineno))
        for fnn, fn in mi.functions.items():
            for n in ast.walk(fn):
                if isinstance(n, ast.Attribute) and n.attr == attr and isinstance(n.ctx, ast.Store):
                    sites.append((rel, fnn, n.lineno))
    return sites


def solver_oracle(mode, seed, **kw):
    req = dict(mode=mode, seed=seed)
    req.update(kw)
    res = runner.native("native/solver_oracle.py", req, timeout=900)
    return res["failures"][0] if res["failures"] else None


# ----------------------------------------------------------------------------- non-interference of the SHIPPED listeners
_ALLOC = {"zeros", "ones", "empty", "array", "copy", "deepcopy", "list", "dict", "set", "tuple", "linspace", "arange", "meshgrid",
          "ndarray", "full", "zeros_like", "ones_like", "empty_like", "FunctionValue", "Point", "str", "int", "float", "format",
          "join", "figure", "subplots", "sorted", "range", "len", "min", "max", "sum", "abs", "round", "double", "float64"}
_MUT = {"append", "extend", "insert", "pop", "remove", "clear", "update", "setdefault", "sort", "reverse", "fill", "resize", "put",
        "itemset"}


def _root(t):
    while isinstance(t, (ast.Attribute, ast.Subscript)):
        t = t.value
    return t


def _fresh_value(v, fresh):
    if isinstance(v, (ast.Constant, ast.List, ast.ListComp, ast.Dict, ast.DictComp, ast.Tuple, ast.BinOp, ast.UnaryOp, ast.Compare,
                      ast.BoolOp, ast.JoinedStr, ast.Set, ast.SetComp, ast.GeneratorExp)):
        return True
    if isinstance(v, ast.Name):
        return v.id in fresh
    if isinstance(v, ast.Call):
        f = v.func
        return (f.attr if isinstance(f, ast.Attribute) else getattr(f, "id", "")) in _ALLOC
    if isinstance(v, ast.IfExp):
        return _fresh_value(v.body, fresh) and _fresh_value(v.orelse, fresh)
    return False


def _listener_writes(fn):
    """stores / mutating calls of one function whose target is neither `self`, the matplotlib configuration, nor an object the
    function allocated itself (flow-insensitive for freshness: a name is fresh after an assignment from an allocation and
    stops being fresh after any other assignment)"""
    fresh, bad = set(), []

    class V(ast.NodeVisitor):
        def visit_Assign(s, n):
            for t in n.targets:
                s.store(t, n.value, n.lineno)
            s.generic_visit(n)

        def visit_AugAssign(s, n):
            s.store(n.target, None, n.lineno, aug=True)
            s.generic_visit(n)

        def visit_For(s, n):
            if isinstance(n.target, ast.Name):
                fresh.discard(n.target.id)
            s.generic_visit(n)

        def store(s, t, val, line, aug=False):
            if isinstance(t, ast.Name):
                if not aug:
                    (fresh.add if (val is not None and _fresh_value(val, fresh)) else fresh.discard)(t.id)
                return
            if isinstance(t, (ast.Tuple, ast.List)):
                for e in t.elts:
                    s.store(e, None, line)
                return
            r = _root(t)
            if isinstance(r, ast.Name) and (r.id in ("self", "plt") or r.id in fresh):
                return
            bad.append("line %d: store %s" % (line, ast.unparse(t)[:70]))

        def visit_Call(s, n):
            f = n.func
            if isinstance(f, ast.Attribute) and f.attr in _MUT:
                r = _root(f.value)
                if not (isinstance(r, ast.Name) and (r.id in ("self", "plt", "np", "matplotlib") or r.id in fresh)):
                    bad.append("line %d: mutating call %s" % (n.lineno, ast.unparse(f)[:70]))
            s.generic_visit(n)
    V().visit(fn)
    return bad


def shipped_listener_frames(chk, repo):
    """C13 'attaching the shipped console and painting listeners changes neither the trial sequence nor the result': the frame
    of every function of the output system (listeners, painters, console outputers) excludes everything it is handed -
    it may write its own fields, matplotlib's configuration and objects it allocates"""
    for rel, mi in sorted(repo.modules.items()):
        if not (rel.startswith("iOpt/output_system/") or rel == "iOpt/method/listener.py"):
            continue
        bad = []
        for cn, ci in mi.classes.items():
            for mn, fn in ci.methods.items():
                bad += ["%s.%s %s" % (cn, mn, b) for b in _listener_writes(fn)]
        for fnn, fn in mi.functions.items():
            bad += ["%s %s" % (fnn, b) for b in _listener_writes(fn)]
        chk.add_lemma("frame:shipped-listeners:%s" % rel, "proved" if not bad else "refuted", "effect-analysis", 0.0,
                      clause="no function of %s writes an object it was handed (solution, search data, trial points) or "
                             "anything derived from one: only its own fields, matplotlib configuration and objects it "
                             "allocates" % rel, func=rel, model=None if not bad else {"sites": bad[:8]})


