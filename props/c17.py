"""C17 - Evolvent queries are pure (DESIGN 5.C17): frames, freshness, ownership, history independence."""
import json
from pyvc.frontend import Repo
from pyvc import verify, runner
from pyvc.sym import Unsupported, EngineError
from contracts import evolvent as ce
from contracts import evolvent_rel as er
from . import evolvent_common as ec

PID = "C17"


def run(tier, seed):
    chk = runner.Check(PID, tier, seed)
    ec.run_parallel(chk, ("node", "getyonx", "p2d", "getimage", "init"), ("R01",),
                    ("numbr", "getxony", "d2p", "setbounds", "inverse_api", "inverse_self", "n1_forward", "n1_inverse",
                     "n1_init", "n1_setbounds"))
    chk.inlined |= {"Evolvent.__GetYonX (N=1 path only)", "Evolvent.__GetXonY (N=1 path only)"}
    chk.assumptions += [
        ec.ASSUME_FLOAT, ec.ASSUME_NUMPY, ec.ASSUME_PRODUCT,
        "frame rule (meta-theorem): because every public method is proved to write only the binding self.yValues, "
        "vectors allocated during the call, and (N=1 only) the contents of the owned vector self.yValues that is "
        "proved never to be returned or to alias an argument, arrays returned earlier and argument arrays are never "
        "written by later calls, for every interleaving of calls",
        "history independence: for N>=2 the result is the centre of cell gk, gk is a function of the subinterval "
        "number (R01, any two runs from arbitrary object states) and the subinterval number is a function of x; for the "
        "inverse R4; for N=1 the post-conditions are explicit functions of the argument and the bounds",
        "configurations: N in {1,...,5}; m, box, argument symbolic"]

    def oracle(item):
        return ec.native_oracle("c17", item, seed) or ec.native_oracle("c07", item, seed)

    return chk.finish(oracle=oracle)


def replay(path):
    doc = json.load(open(path))
    fi = doc.get("failing_input")
    if not fi:
        print("replay file names the failed obligation only (no failing input was found):", doc["failed_obligation"])
        return 1
    case = dict(N=fi["N"], m=fi["m"], lower=fi["lower"], upper=fi["upper"], xs=[fi["x"], 0.3] if fi.get("x") is not None else [0.3])
    out = 0
    for mode in ("c17", "c07"):
        res = runner.native("native/evolvent_oracle.py", {"mode": mode, "cases": [case]})
        print(json.dumps(res, indent=1))
        out |= 1 if res["failures"] else 0
    return out
