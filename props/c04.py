"""C04 - reported optimum is the best evaluated trial (method layer; DESIGN 5.C04)."""
from . import method_common as mc

PID = "C04"
WHICH = ['Method.UpdateOptimum', 'OptimizationTask.Calculate', 'Method.CalculateFunctionals', 'Method.RenewSearchData', 'Method.FirstIteration', 'Process.DoGlobalIteration', 'Process.GetResults']
EXTRA = ["'at every moment / inside every listener callback': listener call sites lie where INV (groups val, best) holds; the callbacks' interface contract writes nothing of the solver"]


def run(tier, seed):
    return mc.run_check(PID, tier, seed, WHICH, "c04", EXTRA, post=mc.d7_obligation, known_matcher=mc.d7_matcher)


def replay(path):
    return mc.replay_generic(path, "c04")
