"""C07 - Evolvent visits every grid cell of the box exactly once (DESIGN 5.C07)."""
import json
from pyvc.frontend import Repo
from pyvc import verify, runner
from contracts import evolvent as ce
from . import evolvent_common as ec

PID = "C07"


def n1_cell_contract():
    """Property clause taken literally for N = 1: x in the i-th of 2^m subintervals maps to the centre of cell i.
    iOpt maps N = 1 by the exact affine map (which C09 requires), so this obligation fails: known finding F-C07-N1."""
    c = ce.get_image_1()
    c.ensures = ["implies(x < 1, result[0] * ipow(2, self.evolventDensity) == self.lowerBoundOfFloatVariables[0] * "
                 "ipow(2, self.evolventDensity) + (floor(x * ipow(2, self.evolventDensity)) + 0.5) * "
                 "(self.upperBoundOfFloatVariables[0] - self.lowerBoundOfFloatVariables[0]))"]
    c.requires = c.requires + ["self.evolventDensity >= 1"]
    return c


def known_matcher(x, entry):
    if entry["key"] != "F-C07-N1":
        return False
    if "failing_input" in x or "what" in x and "N" in x:      # a native failing input
        return x.get("N") == 1 and "centre" in x.get("what", "")
    return "[N=1-cell]" in x.get("name", "")


def run(tier, seed):
    chk = runner.Check(PID, tier, seed)
    repo = Repo()
    n1cell = verify.verify(repo, n1_cell_contract(), ce.SCHEMA, [ce.transform_p2d(1)], {}, ce.SPEC_FUNCS,
                           inline={("Evolvent", "__GetYonX")}, config="N=1-cell", canary=False, defer=True)
    ec.run_parallel(chk, ("node", "getyonx", "p2d", "getimage", "init"), ("R01",), ("n1_forward", "setbounds", "n1_setbounds",
                                 # the property holds after ANY history of queries on the object: the inverse entry points must
                                 # leave the configuration (bounds, density) and their arguments alone
                                 "numbr", "getxony", "d2p", "inverse_api", "n1_inverse"), more_reports=[n1cell])
    chk.inlined.add("Evolvent.__GetYonX (N=1 path only: one assignment)")
    chk.assumptions += [ec.ASSUME_FLOAT, ec.ASSUME_NUMPY, ec.ASSUME_PRODUCT,
                        "surjectivity ('every cell is reached') is the pigeonhole consequence of the proved injectivity "
                        "between the 2^(N*m) subintervals and the 2^(N*m) cells (mathematical step, not code-dependent)",
                        "configurations: N in {1,...,5} enumerated; density m and the box are symbolic (unbounded)"]

    def oracle(item):
        strict = "[N=1-cell]" in item.get("name", "")
        if strict:
            res = runner.native("native/evolvent_oracle.py", {"mode": "c07n1", "cases": [
                dict(N=1, m=3, lower=[0.0], upper=[1.0], xs=[0.0, 0.3])]})
            return res["failures"][0] if res["failures"] else None
        return ec.native_oracle("c07", item, seed)

    return chk.finish(oracle=oracle, known_matcher=known_matcher)


def replay(path):
    doc = json.load(open(path))
    fi = doc.get("failing_input")
    if not fi:
        print("replay file names the failed obligation only (no failing input was found):", doc["failed_obligation"])
        print(json.dumps(doc.get("counter_model"), indent=1)[:2000])
        return 1
    mode = "c07n1" if fi.get("N") == 1 and "centre" in fi.get("what", "") else "c07"
    case = dict(N=fi["N"], m=fi["m"], lower=fi["lower"], upper=fi["upper"], xs=[v for v in (fi.get("x"), fi.get("x2")) if v is not None])
    res = runner.native("native/evolvent_oracle.py", {"mode": mode, "cases": [case]})
    print(json.dumps(res, indent=1))
    return 1 if res["failures"] else 0
