"""Claims: which properties have a registered check (fills registry.CLAIMED)."""
from .registry import claim

PROOF_NOTE = ("trusted base: pyvc (own symbolic executor / VC generator), z3 5.1 (cvc5 second opinion on unknowns), "
              "Python semantics of DESIGN 2.3, floats modelled as reals, numpy allocation/copy contract; "
              "per-run details in the evidence file")

claim("C07", module="props.c07", category="proof",
      text="Deductive proof, unbounded in the density m and in the box, for each dimension N in 1..5: contracts on "
           "Evolvent.__CalculateNode (node table), __GetYonX (inductive loop invariant with ghost cell indices and "
           "subinterval number), __TransformP2D, GetImage, __init__, plus a two-run product invariant (R01) giving "
           "'function of the subinterval' and injectivity. All verification conditions are generated from /repo's "
           "current AST and discharged by z3. The N=1 cell-centre clause is a recorded known finding.",
      note=PROOF_NOTE + "; surjectivity = pigeonhole consequence of injectivity (mathematical step)",
      technique="contract-based deductive verification: loop invariants + ghost state + 2-run product invariant, z3",
      design_ref="DESIGN.md 5.C07")
claim("C08", module="props.c08", category="proof",
      text="Deductive proof, unbounded in m, for N in 2..5: the two-run product invariant R2 (consecutive subintervals "
           "-> face-adjacent cells, carried by the exit/entry-corner invariant J over the orientation state) and the "
           "nesting step lemma are proved inductive on the real loop body of __GetYonX; cell width through GetImage's "
           "post-condition. The Hoelder inequality itself is the classical paper corollary of these two facts and is "
           "listed as an unmechanised consequence.",
      note=PROOF_NOTE + "; the 'consequently Hoelder' sentence is not machine-checked (stated in evidence.assumptions)",
      technique="contract-based deductive verification: 2-run product (relational) invariants over the real loop body, z3",
      design_ref="DESIGN.md 5.C08")
