"""Claims: which properties have a registered check (fills registry.CLAIMED)."""
from .registry import claim

PROOF_NOTE = ("trusted base: pyvc (own symbolic executor / VC generator), z3 5.1 (cvc5 second opinion on unknowns), "
              "Python semantics of DESIGN 2.3, floats modelled as reals, numpy allocation/copy contract; "
              "per-run details in the evidence file")

claim("C07", module="props.c07", category="proof",
      text="Deductive proof, unbounded in the density m and in the box, for each dimension N in 1..5: contracts on "
           "Evolvent.__CalculateNode (node table), __GetYonX (inductive loop invariant with ghost cell indices and "
           "subinterval number), __TransformP2D, GetImage, __init__, plus a two-run product invariant (R01) giving "
           "'function of the subinterval' and injectivity. All verification conditions are generated from /repo's "
           "current AST and discharged by z3. The N=1 cell-centre clause is a recorded known finding.",
      note=PROOF_NOTE + "; surjectivity = pigeonhole consequence of injectivity (mathematical step)",
      technique="contract-based deductive verification: loop invariants + ghost state + 2-run product invariant, z3",
      design_ref="DESIGN.md 5.C07")
claim("C08", module="props.c08", category="proof",
      text="Deductive proof, unbounded in m, for N in 2..5: the two-run product invariant R2 (consecutive subintervals "
           "-> face-adjacent cells, carried by the exit/entry-corner invariant J over the orientation state) and the "
           "nesting step lemma are proved inductive on the real loop body of __GetYonX; cell width through GetImage's "
           "post-condition. The Hoelder inequality itself is the classical paper corollary of these two facts and is "
           "listed as an unmechanised consequence.",
      note=PROOF_NOTE + "; the 'consequently Hoelder' sentence is not machine-checked (stated in evidence.assumptions)",
      technique="contract-based deductive verification: 2-run product (relational) invariants over the real loop body, z3",
      design_ref="DESIGN.md 5.C08")

claim("C09", module="props.c09", category="proof",
      text="Deductive proof, unbounded in m and in the box, N in 1..5: contracts on __CalculateNumbr (exact inverse of the "
           "node table), __GetXonY (loop invariant: result = gidx/D^m, residual <= half a cell), __TransformD2P, "
           "GetInverseImage and GetPreimages; a lock-step product of the inverse loop with the forward loop (R3) shows "
           "that the forward cell of the returned subinterval contains y; with the injectivity R01 and a small "
           "arithmetic lemma this gives inverse(image(x)) = floor(x*D^m)/D^m. N=1: both maps affine, mutually inverse.",
      note=PROOF_NOTE, technique="contract-based deductive verification: loop invariants + lock-step product of two loops, z3",
      design_ref="DESIGN.md 5.C09")
claim("C17", module="props.c17", category="proof",
      text="Frame, freshness and ownership obligations on every public Evolvent method (GetImage, GetInverseImage, "
           "GetPreimages, SetBounds, __init__) and their callees, N in 1..5, m/box/arguments symbolic: results are freshly "
           "allocated, arguments are unchanged, only self.yValues (and fresh storage) is written, SetBounds stores owned "
           "copies; history independence through the product invariants R01 (forward) and R4 (inverse) proved from "
           "arbitrary object states.",
      note=PROOF_NOTE + "; the step from per-method frames to 'for every interleaved call sequence' is the frame rule",
      technique="contract-based deductive verification: frame/freshness/ownership conditions + 2-run product invariants, z3",
      design_ref="DESIGN.md 5.C17")
claim("C12", module="props.c12", category="proof",
      text="Freshness/ownership post-conditions proved for every constructor of the solver object graph (Solver, "
           "SearchData, Solution, Evolvent, OptimizationTask, Method, Process, SearchDataItem, CharacteristicsQueue, Trial, "
           "Point, FunctionValue) with CPython default-argument semantics modelled (a mutable default is one shared "
           "pre-existing object), frames 'constructor writes only its own object', plus syntactic obligations that the "
           "footprint classes hold no class-level/module-level mutable state, that no solver code writes into the user's "
           "Problem / SolverParameters objects (shared between solvers) and that no function changes process-wide interpreter / "
           "numpy state outside a restoring `with` block. Non-interference of interleaved solvers is then the frame rule.",
      note=PROOF_NOTE + "; per-method frames of Method/Process/SearchData are discharged under the checks of C06/C19/C02; "
           "DEPQ constructor contract assumed",
      technique="contract-based deductive verification: freshness/ownership post-conditions and frame conditions, z3",
      design_ref="DESIGN.md 5.C12")
claim("C20", module="props.c20", category="proof",
      text="Solver.__init__ is proved (against the contracts of the constructors it calls) to store "
           "parameters.evolventDensity, the problem dimension and copies of the bounds in the Evolvent that it hands to "
           "Method and Process; GetImage's proved post-condition gives trial coordinates lower+(k+1/2)(upper-lower)/2^m with "
           "m that stored density (N in 2..5, m and box symbolic); a frame obligation shows nothing reassigns the density. "
           "'Every trial point is GetImage(x) and the objective is evaluated exactly there' is re-proved here on the real "
           "FirstIteration / CalculateIterationPoint / CalculateFunctionals / OptimizationTask.Calculate / DoGlobalIteration "
           "(only these clauses are in C20's scope).",
      note=PROOF_NOTE,
      technique="contract-based deductive verification: constructor post-conditions chained with the evolvent contracts, z3",
      design_ref="DESIGN.md 5.C20")

claim("C19", module="props.c19", category="proof",
      text="Deductive proof of the container code of iOpt/method/search_data.py against ghost views (sequence view + position "
           "map of the linked list, sorted-entry view of each queue): CharacteristicsQueue wrappers against the ASSUMED "
           "depq.DEPQ contract; SearchData / SearchDataDualQueue __init__, InsertFirstDataItem, InsertDataItem (hinted and "
           "hintless), FindDataItemByOneDimensionalPoint (loop invariant over the iterator protocol), __iter__/__next__, "
           "RefillQueue (loop invariant), ClearQueue, GetCount, GetLastItem, GetDataItemWithMaxGlobalR, the dual-queue "
           "GetDataItemWithMaxGlobalR/LocalR (while-loop invariant for the lazy invalidation of stale entries, with variant): "
           "well-formedness "
           "(order, links, positions, count) is an object invariant preserved by every operation, lookup returns the first "
           "item to the right, a best request returns a maximal entry. Safety obligations (no None dereference, index in "
           "range) included.",
      note=PROOF_NOTE + "; depq.DEPQ is a dependency behind an assumed contract (bounded conformance run reported separately, "
           "not counted as proof); 'bounded queue retains the highest-priority entries' is that assumed contract transported "
           "through CharacteristicsQueue.Insert",
      technique="contract-based deductive verification: object invariant over ghost sequence/multiset views, loop "
                "invariants over the iterator protocol, frame conditions, z3 (quantifier instantiation with explicit triggers)",
      design_ref="DESIGN.md 5.C19")

claim("C18", module="props.c18", category="proof",
      text="Constructor post-condition (metadata contract) evaluated on every member of every finite family (2,509 instances, "
           "exhaustive; Rastrigin/XSquared for dimension 1..5) + for each of the 2 x 1000 Hill/Shekel functions the "
           "universally quantified table obligations (minimum, maximum: value and location; Lipschitz constant) proved over "
           "the whole interval by executing the real Calculate in outward-rounded interval arithmetic with branch and bound "
           "(derivative by forward-mode AD on the real code).",
      note="finite-family enumeration is complete for the finite families; interval back end (own code) and libm accuracy are "
           "trusted; Rastrigin/XSquared beyond dimension 5 by uniformity of the constructor (argued, not machine-checked)",
      technique="contract-based: constructor post-conditions enumerated exhaustively over the finite families; forall-x "
                "obligations on the real Calculate discharged by a rigorous interval branch-and-bound back end",
      design_ref="DESIGN.md 5.C18")

claim("C10", module="props.c10", category="proof",
      text="For every member of Hill, Shekel, Grishagin, Shekel4, StronginC3 (exhaustive) and Rastrigin/XSquared (dimension "
           "1..5): the three clauses of the property are universally quantified obligations on the REAL Calculate, discharged by "
           "executing it on outward-rounded intervals with branch and bound (constraints handled for StronginC3's feasible "
           "set). GKLS (400 functions): structural contract on the generator state (exhaustive, exact values at all minimisers) "
           "+ 3,600 ball-minimum lemmas by interval proof; the link between the polar form used there and the real splice code "
           "is a bounded sample and is reported as such.",
      note="trusted: own interval back end (pyvc/ival.py), libm within 4 ulp; Rastrigin/XSquared beyond dimension 5 argued from "
           "the additive structure; GKLS polar-form link bounded (not counted as proof)",
      technique="contract-based: forall-x post-conditions of the real Calculate discharged by a rigorous interval branch-and-bound "
                "back end; finite families enumerated exhaustively",
      design_ref="DESIGN.md 5.C10")
claim("C14", module="props.c14", category="proof",
      text="Structural contract of the GKLS generator evaluated on the state the real generator builds for each of the 400 "
           "functions (exhaustive): minimisers in the box, non-overlapping balls, class distance/radius, values, uniqueness of "
           "the global minimiser, exact prescribed value of the real Calculate at all 4,000 minimisers, bit-identical "
           "regeneration; the generator pinned by Knuth's published check value, the repository's recorded value and the "
           "30-bit seed space of the published seeding routine; "
           "continuity as a polynomial identity; no nondeterministic source in the construction path (syntactic obligations). "
           "The every-point clauses (paraboloid outside the balls, continuity of the real code) rest on a bounded sample link.",
      note="finite-family enumeration is complete; interval/sympy trusted; the every-point clauses are linked to the real code by "
           "sampling only (bounded stand-in, not counted)",
      technique="contract-based: generator post-conditions enumerated exhaustively over the finite family; lemmas by interval "
                "branch and bound / polynomial identity",
      design_ref="DESIGN.md 5.C14")

claim("C15", module="props.c15", category="proof",
      text="Frame (write-effect) obligations generated from the AST of every shipped Calculate and of everything it calls "
           "(GKLSFunction.Calculate/CalculateDFunction/GKLS_norm, GrishaginFunction.Calculate, ...): each store must target a "
           "local, the supplied holder's value, or an object allocated in the same call; no write to self, class attributes, "
           "module tables or the point; the holder's previous value is never read; the supplied holder is returned; no "
           "nondeterministic primitive on the path; no function of the benchmark modules (constructors and generators included) "
           "changes process-wide interpreter / numpy state. History and cross-instance independence are the frame-rule consequence.",
      note="decided by an own conservative syntactic effect analysis (not by the SMT back end): a flagged store is a failed "
           "obligation; native history oracle attaches a failing input",
      technique="contract-based: frame conditions (modifies = {functionValue.value} + fresh locals) checked on every path by a "
                "write-effect analysis of the real AST",
      design_ref="DESIGN.md 5.C15")

METHOD_NOTE = ("trusted base: pyvc (symbolic executor, own bounded quantifier instantiation, relevance slicing), z3 5.1 CLI; floats as "
               "reals; INTERFACE contracts of the user's objective and listeners; ASSUMED contracts of depq.DEPQ, copy.deepcopy, "
               "and the abstract of Evolvent.GetImage proved under C07/C17; every check of this group verifies the whole method layer (Method.*, "
               "OptimizationTask.Calculate, Process.*, the Solver API layer and the base case Solver.__init__ + constructors); clauses that "
               "only another property states are that property's business (scope filter, DESIGN 12); quick tier: a verification "
               "condition whose exact SMT text is recorded as proved is not re-solved (thorough tier solves everything); per-run "
               "details in the evidence file")
claim("C02", module="props.c02", category="proof",
      text="Contracts proved on the real Method code: CalculateGlobalR (the three characteristic formulas), CalculateM (M = running "
           "maximum of the slopes, floored at 1), CalculateNextPointCoordinate (the point rule; strictly inside the interval, both "
           "raise statements unreachable), RecalcAllCharacteristics (loop invariant), CalculateIterationPoint (the chosen "
           "interval has the maximal characteristic over the WHOLE partition with current M and z*: queue invariant 'every "
           "interval queued exactly once with its current characteristic unless recalc is set'), RenewSearchData (re-establishes "
           "the invariant), FirstIteration (first trial at the image of 0.5).",
      note=METHOD_NOTE, technique="contract-based deductive verification: object invariant of Method+SearchData (ghost sequence / "
      "queue views), loop invariants, lemma hints; z3 with own quantifier instantiation", design_ref="DESIGN.md 5.C02")
claim("C06", module="props.c06", category="proof",
      text="The object invariant INV of the search information (doubly linked list = ghost sequence, strictly increasing "
           "coordinates from 0 to 1, end items unevaluated, every interior item evaluated, delta = hroot(x - x_left, N), region "
           "ownership) is established by FirstIteration, preserved by RenewSearchData and by the loop of DoGlobalIteration "
           "(loop invariant, unbounded in the number of iterations); new items carry the evolvent image of their coordinate and "
           "the objective's value at that point.",
      note=METHOD_NOTE + "; scope: global search (DoLocalRefinement rewrites the stored optimum item: known finding D7)",
      technique="contract-based deductive verification: object invariant + loop invariant over DoGlobalIteration, z3",
      design_ref="DESIGN.md 5.C06")
claim("C04", module="props.c04", category="proof",
      text="Invariant groups `val` and `best`: the optimum estimate is a stored evaluated item, z* = its value <= every evaluated "
           "value, Solution.bestTrials[0] is that item, its reported value is the objective at its reported point and sits in "
           "the item's own holder; proved for UpdateOptimum, OptimizationTask.Calculate, CalculateFunctionals, RenewSearchData, "
           "FirstIteration and preserved by DoGlobalIteration, hence true at every listener call site and in the returned Solution.",
      note=METHOD_NOTE, technique="contract-based deductive verification: object invariant (best tracking, holder ownership), z3",
      design_ref="DESIGN.md 5.C04")
claim("C03", module="props.c03", category="proof",
      text="CheckStopCondition (stop <=> accuracy < eps or iterations >= budget), FinalizeIteration, CalculateIterationPoint "
           "(accuracy' = min(chosen Hoelder length, accuracy)), CalculateFunctionals (trial counter = completed evaluations, "
           "ghost counter on the objective), DoGlobalIteration (exactly `number` iterations, counters advance by `number`), Solve "
           "(loop invariant, variant itersLimit - iterationsCount: termination; reported trials = evaluations <= budget; on exit "
           "the criterion holds).",
      note=METHOD_NOTE + "; termination of the objective, listeners and DEPQ assumed; scope refineSolution == False",
      technique="contract-based deductive verification: loop invariants with variants, ghost evaluation counters, z3",
      design_ref="DESIGN.md 5.C03")
claim("C16", module="props.c16", category="proof",
      text="Exceptional post-conditions (raises clauses) through OptimizationTask.Calculate, CalculateFunctionals, FirstIteration, "
           "DoGlobalIteration and Solve for an objective that may raise ANY BaseException at ANY call: counters, optimum and the "
           "list invariant reflect exactly the completed trials, the failed item is never inserted, Solve's handler catches every "
           "class the interface contract allows and returns the solution.",
      note=METHOD_NOTE, technique="contract-based deductive verification: exceptional post-conditions under the object invariant, z3",
      design_ref="DESIGN.md 5.C16")
claim("C13", module="props.c13", category="proof",
      text="Ghost notification trace: DoGlobalIteration appends one BeforeMethodStart entry per listener before the first trial and "
           "one OnEndIteration entry per listener whose argument holds, in order, exactly the items evaluated by this call; Solve "
           "appends one OnMethodStop entry per listener with the returned solution. Arity obligations for every listener call "
           "site against the base class and every shipped override; console final report: data-flow contract of "
           "printFinalResult + label/parameter obligations of printResult. The public entry points Solver.Solve / "
           "DoGlobalIteration / DoLocalRefinement / GetResults are proved to be exactly the Process operations. Non-interference: "
           "the callbacks' interface contract and the frames for user listeners; for the shipped console / painting listeners a "
           "write-effect analysis of every function of iOpt/output_system (nothing handed to a callback, or derived from it, is "
           "written).",
      note=METHOD_NOTE + "; what matplotlib/sklearn do internally is not verified; aliasing through a listener's own fields is "
           "not tracked by the write-effect analysis", technique="contract-based deductive verification: "
      "ghost trace post-conditions, loop invariants over the listener list, arity and data-flow obligations, z3",
      design_ref="DESIGN.md 5.C13")
claim("C11", module="props.c11", category="proof",
      text="DoGlobalIteration(k) is k repetitions of one step that reads neither k, eps, itersLimit nor any clock/random source "
           "(syntactic obligations + frames of the verified contracts); Solve repeats the one-step call while the criterion does "
           "not hold (verified loop); the criterion is stable (accuracy never increases, counter never decreases) so a second "
           "Solve performs no trial (post-condition); GetResults has an empty frame.",
      note=METHOD_NOTE + "; determinism of DEPQ and of the objective by their assumed/interface contracts",
      technique="contract-based deductive verification: frame/read obligations + loop contracts, z3", design_ref="DESIGN.md 5.C11")
claim("C05", module="props.c05", category="proof",
      text="Global phase: CalculateFunctionals requires its point to lie in the box; discharged at every call site from the "
           "post-condition of GetImage (abstract of C07). Refinement: DoLocalRefinement verified against the ASSUMED SciPy contract "
           "whose precondition is that the problem's bounds are passed and the start point is the optimum; returned point in the "
           "box, reported value = objective re-evaluated there, not worse than the best global trial. The premise 'every image lies "
           "in the box' is re-proved in this check on the real evolvent code (N = 1..5, symbolic density and box).",
      note=METHOD_NOTE + "; SciPy Nelder-Mead itself is a dependency: assumed contract + bounded native runs (not counted)",
      technique="contract-based deductive verification: pre/post-conditions chained through the assumed dependency contract, z3",
      design_ref="DESIGN.md 5.C05")
claim("C01", module="props.c01", category="proof",
      text="Two layers. Code layer: the premises (arg-max interval over the whole partition with characteristics equal to the AGP "
           "formula for the current M, z*; slope bound; stop moment; accuracy update) are post-conditions proved on the real "
           "code. Lemma layer: 18 real-arithmetic lemmas (z3/nlsat): N=1 complete chain to z* - f(y) < (rM/2) eps; N=2..5 the "
           "power-mean and interval lemmas under the Hoelder constant of f o curve with rM >= K_N L.",
      note=METHOD_NOTE + "; for N >= 2 the Hoelder bound of the curve (C08's consequence) and the grid term of the statement are "
           "classical arguments that are NOT mechanised here; reliability condition taken at the last decision",
      technique="contract-based deductive verification (premises) + SMT-checked lemmas over those post-conditions (conclusion)",
      design_ref="DESIGN.md 5.C01")
