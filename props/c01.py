"""C01 - Certified eps-optimality of the result under the Lipschitz reliability condition (DESIGN 5.C01).

Code layer: the premises are post-conditions proved on the real code (re-verified here from /repo's source):
  P1/P2  CalculateIterationPoint: the chosen interval has the maximal characteristic over the WHOLE partition, all
         characteristics are rs(...) with the current M, z*, r;  CalculateGlobalR: rs(...) = the AGP formula
  P3     CalculateIterationPoint: accuracy' = min(chosen.delta, accuracy);  CheckStopCondition: stop <=> accuracy < eps or budget
  P4     invariant group `val`: slope(z_{k-1}, z_k, delta_k) <= M for every interior interval, M >= 1, z* <= every value
Lemma layer (no code): from P1-P4 and the property's own hypotheses (Lipschitz objective, r*M >= K_N*L) the bound follows;
discharged by z3 (nlsat) per dimension."""
import json, time
import z3
from pyvc import runner, discharge
from pyvc.symexec import Obligation
from . import method_common as mc

PID = "C01"
WHICH = ["Method.CalculateGlobalR", "Method.CalculateM", "Method.CheckStopCondition", "Method.CalculateIterationPoint"]


def R(*names):
    return [z3.Real(n) for n in names]


def lemmas():
    out = []

    def lem(name, hyps, goal, clause):
        out.append(Obligation("lemma:" + name, "lemma", "C01 lemma layer", 0, hyps, goal, clause))
    # ---------------------------------------------------------------- N = 1 (the image is affine: Hoelder = Lipschitz, no grid term)
    xl, xr, x, zl, zr, zs, M, r, L, g = R("xl", "xr", "x", "zl", "zr", "zstar", "M", "r", "L", "g")
    D = xr - xl
    common = [xl < xr, xl <= x, x <= xr, M >= 1, r > 1, L >= 0, r * M >= 2 * L, zs <= zl, zs <= zr]
    Rint = D + (zr - zl) * (zr - zl) / (r * r * M * M * D) - 2 * (zr + zl - 2 * zs) / (r * M)
    lem("N1-interior-interval", common + [g >= zl - L * (x - xl), g >= zr - L * (xr - x)],
        zs - g <= (r * M / 4) * Rint,
        "interior interval, N=1: a Lipschitz objective stays above z* - (rM/4) R(interval) when rM >= 2L")
    z = z3.Real("z")
    Rb = 2 * D - 4 * (z - zs) / (r * M)
    lem("N1-boundary-interval", [xl < xr, M >= 1, r > 1, L >= 0, r * M >= 2 * L, zs <= z, g >= z - L * D],
        zs - g <= (r * M / 4) * Rb,
        "boundary interval (one end never evaluated), N=1: g >= z* - (rM/4) R(interval)")
    lem("N1-chosen-interior", [xl < xr, M >= 1, r > 1, zs <= zl, zs <= zr, zr - zl <= M * D, zl - zr <= M * D], Rint < 2 * D,
        "chosen interior interval: R < 2*Delta (uses the slope bound |dz| <= M*Delta of invariant group val)")
    lem("N1-chosen-boundary", [xl < xr, M >= 1, r > 1, zs <= z], Rb <= 2 * D, "chosen boundary interval: R <= 2*Delta")
    Rk, Rt, Dt, eps = R("Rk", "Rt", "Dt", "eps")
    lem("combination", [M >= 1, r > 1, zs - g <= (r * M / 4) * Rk, Rk <= Rt, Rt <= 2 * Dt, Dt < eps, eps > 0],
        zs - g < (r * M / 2) * eps,
        "combination: with the arg-max property (P2) and the stop moment (P3), z* - g(x) < (rM/2)*eps for every x")
    Mf = z3.Real("Mfinal")
    best = z3.Real("best")
    lem("monotone-M-and-best", [M >= 1, r > 1, Mf >= M, best <= zs, zs - g < (r * M / 2) * eps, eps > 0],
        best - g < (r * Mf / 2) * eps,
        "the bound survives later growth of M and later improvements of the optimum (M never decreases: CalculateM; the "
        "optimum never increases: UpdateOptimum)")
    # ---------------------------------------------------------------- N = 2..5 (Hoelder metric, points at curve distance >= 2^-Nm)
    for N in (2, 3, 4, 5):
        a, b, Dh, H, c = R("a", "b", "Dh", "H", "c")

        def p(t, n=N):
            r_ = t
            for _ in range(n - 1):
                r_ = r_ * t
            return r_
        # power mean: a, b >= 0, a^N + b^N = Dh^N  =>  a + b <= c*Dh  with  c = 2^(1-1/N)  (c > 0, c^N = 2^(N-1))
        lem("N%d-power-mean" % N, [a >= 0, b >= 0, Dh > 0, p(a) + p(b) == p(Dh), c > 0, p(c) == 2 ** (N - 1)], a + b <= c * Dh,
            "power mean inequality for the two Hoelder distances of a point inside an interval (N=%d)" % N)
        RintN = Dh + (zr - zl) * (zr - zl) / (r * r * M * M * Dh) - 2 * (zr + zl - 2 * zs) / (r * M)
        lem("N%d-interior-interval" % N,
            [Dh > 0, a >= 0, b >= 0, a + b <= c * Dh, c > 0, M >= 1, r > 1, H >= 0, 2 * H * c <= r * M, zs <= zl, zs <= zr,
             g >= zl - H * a, g >= zr - H * b],
            zs - g <= (r * M / 4) * RintN,
            "interior interval, N=%d: with the Hoelder constant H of f o curve and H*2^(1-1/N)/2 <= rM/4 (i.e. rM >= K_N*L for "
            "H = 2*sqrt(N+3)*L), g(x) >= z* - (rM/4) R(interval)" % N)
        lem("N%d-boundary-interval" % N, [Dh > 0, M >= 1, r > 1, H >= 0, 2 * H <= r * M, zs <= z, g >= z - H * Dh],
            zs - g <= (r * M / 4) * (2 * Dh - 4 * (z - zs) / (r * M)), "boundary interval, N=%d" % N)
    return out


def run(tier, seed):
    def post(chk):
        obs = lemmas()
        res = discharge.discharge(obs, timeout_ms=60000, tactic=None, use_cvc5=False)
        for r_ in res:
            chk.add_result(r_)
        chk.functions.add("lemma layer (10 + 12 real-arithmetic lemmas, no code)")
    extra = [
        "hypotheses of the property itself: f Lipschitz with constant L on the unit-normalised box; r*M >= K_N*L where M is the "
        "estimate AT THE MOMENT THE LAST INTERVAL WAS CHOSEN (the statement says 'the largest slope the search has seen', i.e. "
        "the final M; the bound is monotone in M, the reliability condition is needed at the last decision)",
        "N = 1: complete chain (the image is affine, Hoelder = Lipschitz, no grid term)",
        "N = 2..5: the interval lemmas are proved for points at curve distance >= 2^-(N*m) from the evaluated ends, with the "
        "Hoelder constant H = 2*sqrt(N+3)*L of f o curve; that Hoelder bound is C08's consequence (not mechanised), and the "
        "grid term L*2^-m*(sqrt(N+3)+sqrt(N)/2) of the statement (points closer than one subinterval to an evaluated end; "
        "box points that are not curve points) is the classical covering argument from C07/C08/C09 - NOT machine-checked here",
        "the code-layer premises are the post-conditions of CalculateGlobalR / CalculateIterationPoint / CheckStopCondition and "
        "the invariant group `val`, verified from /repo's source in this run and under C02/C03/C06",
    ]
    return mc.run_check(PID, tier, seed, WHICH, "c02", extra, post=post)


def replay(path):
    return mc.replay_generic(path, "c02")
