"""C20 - Configured evolvent density is honoured (DESIGN 5.C20)."""
import json, re
from pyvc.frontend import Repo
from pyvc import verify, runner
from contracts import evolvent as ce
from . import solver_common as sc
from . import evolvent_common as ec

PID = "C20"
ALLOWED_DENSITY_WRITERS = {("iOpt/evolvent/evolvent.py", "Evolvent.__init__"), ("iOpt/solver_parametrs.py", "SolverParameters.__init__")}


METHOD_FUNCS = ["Method.FirstIteration", "Method.CalculateIterationPoint", "Method.CalculateFunctionals", "OptimizationTask.Calculate",
                "Process.DoGlobalIteration", "Process.problemCalculate"]
_POINT = re.compile(r"imgv\(|vecval\(|inbox\(|floatVariables")


def in_scope(item):
    """of the method-layer functions only the clauses about WHERE a trial is made belong to C20"""
    f = str(item.get("func", ""))
    if not any(f.endswith(q) or q in f for q in METHOD_FUNCS):
        return True
    kind = str(item.get("kind", ""))
    if not kind.startswith(("ensures", "requires[", "ghost-assert", "inv-", "raises")) or "#nonnull" in kind:
        return True
    return bool(_POINT.search(item.get("clause", "") or ""))


def run(tier, seed):
    chk = runner.Check(PID, tier, seed)
    repo = Repo()
    # (1) Solver.__init__ stores the configured density / dimension / bounds in the evolvent it gives to Method
    reps = sc.constructor_reports(repo)
    # (2) the image of every x is the centre of a cell of the 2^m grid, m = evolvent.evolventDensity (C07 obligation 1)
    ec.run_parallel(chk, ("node", "getyonx", "p2d", "getimage", "init"), (), (), Ns=ec.NS, more_reports=reps)
    # (2b) every trial point IS an image of this solver's evolvent: the point of every item created by the method is
    #      imgv(evolvent, x) and the objective is evaluated exactly there (post-conditions of the real FirstIteration /
    #      CalculateIterationPoint / CalculateFunctionals / OptimizationTask.Calculate; only these clauses are in C20's scope)
    from . import method_common as mc
    mreps = mc.build(METHOD_FUNCS)
    verify.finish_reports(mreps)
    for rep in mreps:
        chk.add_report(rep)
    # (3) frame: nothing writes <obj>.evolventDensity after construction
    sites = sc.attribute_store_sites(repo, "evolventDensity")
    bad = [s for s in sites if (s[0], s[1]) not in ALLOWED_DENSITY_WRITERS]
    chk.add_lemma("frame:evolventDensity-only-set-by-constructors", "proved" if not bad else "refuted", "syntactic-scan", 0.0,
                  clause="attribute evolventDensity is assigned only in Evolvent.__init__ and SolverParameters.__init__ "
                         "(%d store sites in the library)" % len(sites), func="iOpt/**", model=None if not bad else {"sites": bad})
    sc.global_state_scan(chk, repo, classes=["Solver", "Evolvent", "SolverParameters"])
    chk.assumptions += [
        sc.ASSUME_PY, ec.ASSUME_FLOAT, ec.ASSUME_NUMPY,
        "that every trial point is evolvent.GetImage(x) of this solver's evolvent is the post-condition of "
        "Method.FirstIteration / CalculateIterationPoint (verified under C02/C06); here: Solver.__init__ wires "
        "method.evolvent to the evolvent that received the configured density, and GetImage's post-condition "
        "gives point_i = lower_i + (k_i + 1/2)(upper_i - lower_i)/2^m with m = evolvent.evolventDensity",
        "configuration: dimension 2..5 enumerated for the image contract; density and box symbolic (so 2..12 included)",
    ]
    _c = {}

    def oracle(item):
        if "r" not in _c:
            _c["r"] = sc.solver_oracle("c20", seed)
        return _c["r"]

    return chk.finish(oracle=oracle, in_scope=in_scope)


def replay(path):
    doc = json.load(open(path))
    print(json.dumps(doc.get("failing_input") or doc.get("counter_model"), indent=1)[:3000])
    res = runner.native("native/solver_oracle.py", {"mode": "c20", "seed": 0})
    print(json.dumps(res, indent=1)[:3000])
    return 1 if res["failures"] or not doc.get("failing_input") else 0
