"""Shared driver for the benchmark-family checks (C10, C18, C14, C15)."""
import json
from pyvc import runner


def run_native(mode, **kw):
    req = dict(mode=mode)
    req.update(kw)
    return runner.native("native/bench_check.py", req, timeout=3400)


def add_family_results(chk, res, what, backend, proved_clause):
    """one evidence item per (family, obligation kind); failures become native failures (replayed inputs)"""
    for r in res["results"]:
        name = "%s:%s" % (what, r["name"])
        status = "proved" if not r["failures"] and not r["undecided"] else ("refuted" if r["failures"] else "unknown")
        chk.items.append(dict(key=name, name=name, func=r["name"], kind=backend,
                              clause="%s (%d instances)" % (proved_clause, r["count"]),
                              status=status, backend=backend, time=0.0, model=None,
                              reason="; ".join(r["undecided"][:3])))
        chk.finite.append(dict(name=name, count=r["count"], failed=len(r["failures"])))
        for f in r["failures"][:5]:
            chk.native_failures.append(dict(what=f["what"], func=r["name"]))
