"""C02 - every trial is placed by the AGP decision rule (method layer; DESIGN 5.C02)."""
from . import method_common as mc

PID = "C02"
WHICH = ['Method.CalculateDelta', 'Method.CalculateM', 'Method.CalculateGlobalR', 'Method.CalculateNextPointCoordinate', 'Method.RecalcAllCharacteristics', 'Method.CalculateIterationPoint', 'Method.RenewSearchData', 'Method.FirstIteration']
EXTRA = ["C02 reading: 'M is the largest slope over every neighbouring pair seen so far' is proved in per-step form (CalculateM: M' = max(M, slope); RenewSearchData passes both new pairs) - the history form follows by induction", 'argmax: the popped queue entry has the maximal characteristic over ALL intervals because the queue holds every interval exactly once with its current characteristic unless `recalc` is set (invariant group rq), in which case RecalcAllCharacteristics rebuilds it']


def run(tier, seed):
    return mc.run_check(PID, tier, seed, WHICH, "c02", EXTRA)


def replay(path):
    return mc.replay_generic(path, "c02")
