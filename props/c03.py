"""C03 - termination, stop criterion, trial budget (method layer; DESIGN 5.C03)."""
from . import method_common as mc

PID = "C03"
WHICH = ['Method.CheckStopCondition', 'Method.FinalizeIteration', 'Method.CalculateIterationPoint', 'Method.CalculateFunctionals',
         'OptimizationTask.Calculate', 'Method.FirstIteration', 'Process.DoGlobalIteration', 'Process.Solve']
EXTRA = ['termination: loop variants (Solve: itersLimit - iterationsCount; RecalcAllCharacteristics, lookups: remaining items) + no recursion in the verified call graph; termination of the objective, listeners, DEPQ is assumed', "C03 reading: the seeding iteration subdivides nothing; the reported accuracy is min over the chosen intervals (CalculateIterationPoint: accuracy' = min(old.delta, accuracy)), +inf before the first subdivision", 'scope: refineSolution == False']


def run(tier, seed):
    return mc.run_check(PID, tier, seed, WHICH, "c03", EXTRA)


def replay(path):
    return mc.replay_generic(path, "c03")
