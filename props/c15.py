"""C15 - Benchmark evaluation is a pure function of the point (DESIGN 5.C15).

Frame (write-effect) obligations on every shipped `Calculate` and on everything it calls, generated from /repo's
current AST: a statement may write only (a) local names, (b) the attribute `value` of the supplied value holder,
(c) elements / attributes of objects that the function itself allocated in this call.  No `Calculate` path may
write an attribute of `self`, a class attribute, a module-level name, an element of an instance / module table, or
the supplied point.  With no such write, the state read by any `Calculate` (instance fields set by constructors, module
tables) is never changed by any `Calculate`, and with no nondeterministic primitive on the path the value depends on the
point only - for any number and order of earlier evaluations and any other instances."""
import ast, json
from pyvc import runner
from pyvc.frontend import Repo

PID = "C15"
PROBLEMS = [("iOpt/problems/hill.py", "Hill"), ("iOpt/problems/shekel.py", "Shekel"), ("iOpt/problems/shekel4.py", "Shekel4"),
            ("iOpt/problems/rastrigin.py", "Rastrigin"), ("iOpt/problems/xsquared.py", "XSquared"),
            ("iOpt/problems/stronginC3.py", "StronginC3"), ("iOpt/problems/grishagin.py", "Grishagin"),
            ("iOpt/problems/GKLS.py", "GKLS")]
ALLOC_CALLS = {"ndarray", "zeros", "ones", "empty", "array", "copy", "FunctionValue", "Point", "list", "dict"}
NONDET = {"random", "time", "datetime", "uuid", "secrets"}
PURE_BUILTINS = {"range", "len", "pow", "abs", "int", "float", "min", "max", "sum", "str", "print", "round", "enumerate", "zip",
                 "isinstance", "bool", "tuple"}


class Effects(ast.NodeVisitor):
    """write effects of one function body"""

    def __init__(self, fn, holder_name, point_name):
        self.fn, self.holder, self.point = fn, holder_name, point_name
        self.local_alloc = set()      # names bound to objects allocated in this call
        self.bad = []                 # (line, description)
        self.calls = []               # (receiver kind, name, line)
        self.assigned = set()
        for a in fn.args.args:
            self.assigned.add(a.arg)

    def is_alloc(self, v):
        if isinstance(v, (ast.List, ast.ListComp, ast.Dict, ast.Tuple, ast.Constant, ast.BinOp, ast.UnaryOp, ast.Compare)):
            return True
        if isinstance(v, ast.Call):
            f = v.func
            name = f.attr if isinstance(f, ast.Attribute) else getattr(f, "id", "")
            return name in ALLOC_CALLS or name in ("double", "float64", "int32", "sqrt", "sin", "cos", "exp")
        return False

    def root(self, t):
        while isinstance(t, (ast.Attribute, ast.Subscript)):
            t = t.value
        return t

    def check_store(self, t, value, line):
        if isinstance(t, ast.Name):
            self.assigned.add(t.id)
            if value is not None and self.is_alloc(value):
                self.local_alloc.add(t.id)
            elif value is not None and isinstance(value, ast.Name) and value.id in self.local_alloc:
                self.local_alloc.add(t.id)
            else:
                # a name rebound to something that is not a fresh allocation may alias instance / module data
                self.local_alloc.discard(t.id) if not (value is not None and self.is_scalar_expr(value)) else None
            return
        if isinstance(t, (ast.Tuple, ast.List)):
            for e in t.elts:
                self.check_store(e, None, line)
            return
        r = self.root(t)
        if isinstance(t, ast.Attribute) and isinstance(t.value, ast.Name) and t.value.id == self.holder and t.attr == "value":
            return                                        # (b) the supplied holder's value
        if isinstance(r, ast.Name) and r.id in self.local_alloc and r.id not in (self.holder, self.point, "self"):
            return                                        # (c) object allocated in this call
        self.bad.append((line, "writes %s" % ast.unparse(t)))

    def is_scalar_expr(self, v):
        return isinstance(v, (ast.Constant, ast.BinOp, ast.UnaryOp, ast.Compare, ast.BoolOp, ast.IfExp))

    def visit_Assign(self, n):
        for t in n.targets:
            self.check_store(t, n.value, n.lineno)
        self.visit(n.value)

    def visit_AnnAssign(self, n):
        if n.value is not None:
            self.check_store(n.target, n.value, n.lineno)
            self.visit(n.value)

    def visit_AugAssign(self, n):
        if isinstance(n.target, ast.Name):
            self.assigned.add(n.target.id)
        else:
            t = n.target
            if isinstance(t, ast.Attribute) and isinstance(t.value, ast.Name) and t.value.id == self.holder:
                # `holder.value += ...` reads what an earlier evaluation (or the caller) left in the holder
                self.bad.append((n.lineno, "result depends on the previous content of the value holder (%s)" % ast.unparse(t)))
            self.check_store(n.target, None, n.lineno)
        self.visit(n.value)

    def visit_Attribute(self, n):
        if self.holder and isinstance(n.ctx, ast.Load) and isinstance(n.value, ast.Name) and n.value.id == self.holder \
                and n.attr == "value":      # (type / functionID select WHICH function is asked for: inputs, not state)
            self.bad.append((n.lineno, "reads %s: the result must not depend on what the supplied holder contained"
                             % ast.unparse(n)))
        self.generic_visit(n)

    def visit_For(self, n):
        self.check_store(n.target, None, n.lineno)
        self.generic_visit(n)

    def visit_Global(self, n):
        self.bad.append((n.lineno, "global statement"))

    def visit_Nonlocal(self, n):
        self.bad.append((n.lineno, "nonlocal statement"))

    def visit_Delete(self, n):
        self.bad.append((n.lineno, "del statement"))

    def visit_Name(self, n):
        if n.id in NONDET:
            self.bad.append((n.lineno, "uses nondeterministic module %s" % n.id))

    def visit_Call(self, n):
        f = n.func
        if isinstance(f, ast.Attribute):
            r = self.root(f)
            base = r.id if isinstance(r, ast.Name) else "?"
            if f.attr in ("append", "extend", "insert", "pop", "remove", "clear", "fill", "sort", "reverse", "update",
                          "setdefault", "resize", "put", "itemset", "__setitem__", "setfield"):
                if not (base in self.local_alloc and base not in (self.holder, self.point, "self")):
                    self.bad.append((n.lineno, "mutating call %s" % ast.unparse(f)))
            elif base == "self" and isinstance(f.value, ast.Name):
                self.calls.append(("self", f.attr, n.lineno))
            elif base == "self":
                self.calls.append(("selfattr", (ast.unparse(f.value), f.attr), n.lineno))
            elif base in ("np", "numpy", "math"):
                if f.attr == "random" or "random" in ast.unparse(f):
                    self.bad.append((n.lineno, "library random generator"))
        elif isinstance(f, ast.Name):
            if f.id in ("setattr", "exec", "eval", "globals", "vars", "delattr", "input", "open"):
                self.bad.append((n.lineno, "call of %s()" % f.id))
        self.generic_visit(n)


def analyse(repo, chk):
    seen = set()

    def one(ci, mname, holder, point, why):
        key = (ci.name, mname)
        if key in seen:
            return
        seen.add(key)
        fn = ci.methods.get(mname)
        fq = "%s::%s.%s" % (ci.module.relpath, ci.name, mname)
        if fn is None:
            chk.add_lemma("frame:%s.%s" % key, "refuted", "effect-analysis", 0.0, clause="method exists", func=fq,
                          model={"missing": True})
            return
        e = Effects(fn, holder, point)
        e.visit(fn)
        chk.functions.add(fq)
        chk.add_lemma("frame:%s.%s" % key, "proved" if not e.bad else "refuted", "effect-analysis", 0.0,
                      clause="%s.%s (%s) writes only locals, objects it allocates%s" %
                             (ci.name, mname, why, " and functionValue.value" if holder else ""),
                      func=fq, model=None if not e.bad else {"sites": ["line %d: %s" % b for b in e.bad[:6]]})
        for kind, name, line in e.calls:
            if kind == "self":
                c2, f2 = repo.find_method(ci.name, name)
                if f2 is not None:
                    one(c2, name, None, None, "called from %s.%s" % key)
            else:
                recv, name2 = name
                # self.function.Calculate(...) etc.: resolve through the attribute's class assigned in __init__
                init = ci.methods.get("__init__")
                target = None
                if init is not None:
                    for n in ast.walk(init):
                        if isinstance(n, (ast.Assign, ast.AnnAssign)):
                            tg = n.targets[0] if isinstance(n, ast.Assign) else n.target
                            if ast.unparse(tg) == recv and isinstance(n.value, ast.Call) and isinstance(n.value.func, ast.Name):
                                target = n.value.func.id
                if target and repo.cls(target):
                    c2, f2 = repo.find_method(target, name2)
                    if f2 is not None:
                        one(c2, name2, None, None, "called from %s.%s" % key)
                    else:
                        chk.add_lemma("frame:%s.%s->%s.%s" % (key + (target, name2)), "refuted", "effect-analysis", 0.0,
                                      clause="callee resolvable", func=fq, model={"unresolved": "%s.%s" % (target, name2)})
                else:
                    chk.add_lemma("frame:%s.%s:call@%d" % (key + (line,)), "refuted", "effect-analysis", 0.0,
                                  clause="every call on an attribute of self resolves to a class of the repository", func=fq,
                                  model={"unresolved": "%s.%s" % (recv, name2)})

    for rel, cn in PROBLEMS:
        ci = repo.cls(cn)
        fn = ci.methods.get("Calculate") if ci else None
        if fn is None:
            chk.add_lemma("frame:%s.Calculate" % cn, "refuted", "effect-analysis", 0.0, clause="Calculate exists", func=rel,
                          model={"missing": True})
            continue
        args = [a.arg for a in fn.args.args]
        point, holder = (args[1], args[2]) if len(args) >= 3 else (None, None)
        one(ci, "Calculate", holder, point, "objective of %s" % cn)
        # returns the supplied holder; stores the value in it
        rets = [n for n in ast.walk(fn) if isinstance(n, ast.Return)]
        ok_ret = bool(rets) and all(isinstance(r.value, ast.Name) and r.value.id == holder for r in rets)
        stores = [n for n in ast.walk(fn) if isinstance(n, ast.Attribute) and isinstance(n.ctx, ast.Store) and
                  isinstance(n.value, ast.Name) and n.value.id == holder and n.attr == "value"]
        rebinds = [n for n in ast.walk(fn) if isinstance(n, ast.Name) and isinstance(n.ctx, ast.Store) and n.id in (holder, point)]
        chk.add_lemma("result:%s.Calculate" % cn, "proved" if ok_ret and stores and not rebinds else "refuted", "effect-analysis", 0.0,
                      clause="%s.Calculate stores the value in the supplied holder and returns that holder (parameters are not "
                             "rebound)" % cn, func="%s::%s.Calculate" % (rel, cn),
                      model=None if ok_ret and stores and not rebinds else {"returns": [ast.unparse(r) for r in rets][:3]})


# calls that change process-wide interpreter / library state (numpy error mode, print options, RNG seeds, warning filters,
# recursion limit, environment, locale, decimal context): an evaluation elsewhere would then depend on them
GLOBAL_MUTATORS = {"seterr", "seterrcall", "errstate", "set_printoptions", "seed", "set_state", "simplefilter", "filterwarnings",
                   "setrecursionlimit", "setlocale", "setcontext", "putenv", "setswitchinterval", "set_string_function",
                   "setbufsize", "default_rng"}


def global_state_obligations(repo, chk):
    """frame of EVERY function of the benchmark modules (constructors and generators included): no process-wide state"""
    for rel, mi in sorted(repo.modules.items()):
        if not rel.startswith("iOpt/problems/"):
            continue
        bad = []
        with_calls = set()
        for n in ast.walk(mi.tree):
            if isinstance(n, ast.With):
                for it in n.items:
                    if isinstance(it.context_expr, ast.Call):
                        with_calls.add(it.context_expr)
        for n in ast.walk(mi.tree):
            if isinstance(n, ast.Call):
                f = n.func
                name = f.attr if isinstance(f, ast.Attribute) else getattr(f, "id", "")
                if name == "errstate" and n in with_calls:
                    continue                       # `with np.errstate(...)`: restored on every exit
                if name in GLOBAL_MUTATORS and not (name == "seed" and isinstance(f, ast.Attribute) and isinstance(f.value, ast.Name)
                                                    and f.value.id == "self"):
                    bad.append("line %d: %s" % (n.lineno, ast.unparse(f)))
            if isinstance(n, (ast.Subscript, ast.Attribute)) and isinstance(getattr(n, "ctx", None), ast.Store):
                root = n
                while isinstance(root, (ast.Subscript, ast.Attribute)):
                    root = root.value
                if isinstance(root, ast.Name) and root.id in ("os", "sys", "np", "numpy", "math", "warnings"):
                    bad.append("line %d: store into %s" % (n.lineno, ast.unparse(n)[:60]))
        # a default argument value is ONE object created at definition time and shared by every call and every instance: a
        # mutable one (constructor call, list / dict / set display) couples evaluations and instances
        dflt = []
        for n in ast.walk(mi.tree):
            if isinstance(n, ast.FunctionDef):
                for d in list(n.args.defaults) + [k for k in n.args.kw_defaults if k is not None]:
                    if isinstance(d, (ast.Call, ast.List, ast.Dict, ast.Set, ast.ListComp, ast.DictComp, ast.SetComp)):
                        dflt.append("line %d: %s(... = %s)" % (n.lineno, n.name, ast.unparse(d)[:50]))
        chk.add_lemma("frame:no-shared-mutable-defaults:%s" % rel, "proved" if not dflt else "refuted", "effect-analysis", 0.0,
                      clause="no function of %s has a mutable default argument (one object shared by all calls and instances)" % rel,
                      func=rel, model=None if not dflt else {"sites": dflt[:8]})
        chk.add_lemma("frame:process-wide-state:%s" % rel, "proved" if not bad else "refuted", "effect-analysis", 0.0,
                      clause="no function of %s (constructors and generators included) changes process-wide interpreter / "
                             "numpy state (error mode, RNG seed, print options, warning filters, environment)" % rel,
                      func=rel, model=None if not bad else {"sites": bad[:8]})


def run(tier, seed):
    chk = runner.Check(PID, tier, seed)
    repo = Repo()
    analyse(repo, chk)
    global_state_obligations(repo, chk)
    chk.trusted += ["own syntactic write-effect analysis (props/c15.py): conservative - every store whose target is not a local, "
                    "the supplied holder's value or an object allocated in the same call is reported"]
    chk.assumptions += [
        "Python semantics: attribute / subscript stores and the listed mutating methods are the only ways to change an object; "
        "numpy / math functions called on the path are pure",
        "determinism of the evaluated arithmetic (no clock / random source on the path: obligation of the analysis)",
        "the cross-instance clause follows from the frame: no Calculate path writes instance fields, class attributes or module "
        "tables, which are exactly what Calculate reads besides its arguments",
    ]
    cache = {}

    def oracle(item):
        if "r" not in cache:
            cache["r"] = runner.native("native/purity_oracle.py", {"seed": seed}, timeout=900)
        r = cache["r"]
        return r["failures"][0] if r["failures"] else None
    return chk.finish(oracle=oracle)


def replay(path):
    doc = json.load(open(path))
    print(json.dumps(doc.get("failing_input") or doc.get("counter_model"), indent=1)[:2000])
    res = runner.native("native/purity_oracle.py", {"seed": 0}, timeout=900)
    print(json.dumps(res)[:2000])
    return 1 if res["failures"] or not doc.get("failing_input") else 0
