"""Shared pieces of the evolvent checks (C07, C08, C09, C17, C20)."""
import re, json, math, random
from fractions import Fraction
from pyvc.frontend import Repo
from pyvc import verify, discharge, runner, surface
from pyvc.sym import Unsupported, EngineError
from contracts import evolvent as ce
from contracts import evolvent_rel as er

NS = [2, 3, 4, 5]
TIMEOUT = 60000

ASSUME_FLOAT = ("machine arithmetic treated as mathematical: binary64 values are modelled as reals; the forward "
                "evolvent only scales by 2^N, truncates, subtracts and halves, which is exact in binary64 for "
                "N*m <= 50, but that exactness argument is on paper (DESIGN 2.2), not a discharged obligation")
ASSUME_NUMPY = ("assumed contract of numpy: np.zeros/np.ones/np.copy allocate fresh storage with the stated contents; "
                "np.int32 element arithmetic on values in {-1,0,1} does not overflow")
ASSUME_PRODUCT = ("meta-theorem of the method, not a per-run obligation: an invariant proved inductive for the loop body "
                  "holds after every trip count (single-run and lock-step two-run product with equal densities)")


def single_run_reports(repo, N, which, timeout=TIMEOUT):
    """verify the forward chain for dimension N >= 2; which: subset of names"""
    cfg = "N=%d" % N
    reps = []
    sf = ce.SPEC_FUNCS
    if "node" in which:
        reps.append(verify.verify(repo, ce.calculate_node(N), ce.SCHEMA, [], {}, sf, inline=set(), config=cfg,
                                  timeout_ms=timeout, defer=True))
    if "getyonx" in which:
        ls = {(ce.FILE, "Evolvent.__GetYonX", 0): ce.getyonx_loop(N)}
        reps.append(verify.verify(repo, ce.getyonx(N), ce.SCHEMA, [ce.calculate_node(N)], ls, sf, inline=set(),
                                  config=cfg, timeout_ms=timeout, defer=True))
    if "p2d" in which:
        reps.append(verify.verify(repo, ce.transform_p2d(N), ce.SCHEMA, [], {}, sf, inline=set(), config=cfg,
                                  timeout_ms=timeout, defer=True))
    if "getimage" in which:
        reps.append(verify.verify(repo, ce.get_image(N), ce.SCHEMA, [ce.getyonx(N), ce.transform_p2d(N)], {}, sf,
                                  inline=set(), config=cfg, timeout_ms=timeout))
    if "init" in which:
        reps.append(verify.verify(repo, ce.evolvent_init(N), ce.SCHEMA, [], {}, sf, inline=set(), config=cfg,
                                  timeout_ms=timeout, defer=True))
    return reps


def relational_obligations(repo, chk, N, which):
    """generate (not yet discharge) the 2-run product lemmas"""
    try:
        obs = er.lemmas(repo, N, which)
    except (Unsupported, EngineError) as e:
        chk.errors.append(("Evolvent.__GetYonX 2-run product N=%d" % N, str(e)))
        return []
    chk.functions.add("%s::Evolvent.__GetYonX (2-run product)" % ce.FILE)
    return obs


def discharge_lemmas(chk, obs, timeout=TIMEOUT):
    for r in discharge.discharge(obs, timeout_ms=timeout):
        chk.add_result(r)


def model_x(item):
    m = item.get("model") or {}
    for k in ("_x", "x", "a__x", "b__x"):
        if k in m:
            try:
                return float(Fraction(m[k].replace("?", "")))
            except Exception:
                pass
    return None


def config_N(item):
    mm = re.search(r"\[N=(\d)\]", item.get("name", ""))
    return int(mm.group(1)) if mm else None


def oracle_cases(item, seed, extra_x=(), Ns=None):
    """Inputs for the native replay of a failed evolvent obligation: the model's x and dimension first, then every
    subinterval of the small densities (exhaustive for m <= 2 or D^m <= 4096) and edge points at the large ones."""
    rnd = random.Random(seed)
    N0 = config_N(item)
    x0 = model_x(item)
    cases = []
    for N in ([N0] if N0 else (Ns or [1, 2, 3, 4, 5])):
        D = 2 ** N
        mmax = 50 // N
        for m in sorted(set([1, 2, 3, 4, 10, mmax - 1, mmax])):
            if m < 1:
                continue
            xs = [0.0, 1.0, 0.5, 1.0 - 2.0 ** -30, 1.0 - 2.0 ** -40, math.nextafter(1.0, 0.0), 2.0 ** -45, 1.0 / 3, 0.3]
            if x0 is not None:
                xs.insert(0, x0)
            xs += list(extra_x)
            if D ** m <= 4096:
                for i in range(D ** m):
                    xs.append((i + 0.5) / D ** m)
                    xs.append(i / D ** m)
            else:
                for _ in range(64):
                    i = rnd.randrange(D ** m)
                    xs.append(float(Fraction(i, D ** m) + Fraction(1, 3 * D ** m)))
                    xs.append(float(Fraction(i, D ** m)))
                xs.append(float(Fraction(D ** m - 2, D ** m) + Fraction(1, 2 * D ** m)))
            xs = [x for x in xs if 0.0 <= x <= 1.0]
            for (lo, up) in (([-0.5] * N, [0.5] * N), ([-2.0 + i for i in range(N)], [3.5 + 2 * i for i in range(N)])):
                cases.append(dict(N=N, m=m, lower=lo, upper=up, xs=xs))
            if N * m >= 40 or (N == 2 and m >= 20):
                cases.append(dict(N=N, m=m, lower=[10.0] * N, upper=[11.0] * N, xs=xs[:150], dtype="float32"))
            if m == 4:
                cases.append(dict(N=N, m=m, lower=[1000.0005 + i for i in range(N)], upper=[1000.0015 + i for i in range(N)],
                                  xs=xs[:120], via_setbounds="near"))
            if m in (2, 10):
                cases.append(dict(N=N, m=m, lower=[-0.5 + 0.125 * i for i in range(N)], upper=[0.75 + i for i in range(N)],
                                  xs=xs[:200], via_setbounds=True))
    return cases


_ORACLE_CACHE = {}


def native_oracle(mode, item, seed, **kw):
    key = (mode, config_N(item), model_x(item))
    if key not in _ORACLE_CACHE:
        _ORACLE_CACHE[key] = _native_oracle(mode, item, seed, **kw)
    return _ORACLE_CACHE[key]


def _native_oracle(mode, item, seed, **kw):
    cases = oracle_cases(item, seed, **kw)
    if mode == "c09":
        rnd = random.Random(seed + 1)
        for c in cases:
            c["ys"] = [[rnd.uniform(l, u) for l, u in zip(c["lower"], c["upper"])] for _ in range(24)]
    res = runner.native("native/evolvent_oracle.py", {"mode": mode, "cases": cases}, timeout=900)
    if res["failures"]:
        return res["failures"][0]
    return None



# ----------------------------------------------------------------------------- parallel generation (one task per N)
def gen_task(N, single, rel, extra):
    """Runs in a pool worker: symbolic execution for dimension N; returns picklable reports / serialised lemmas.
    single: names for single_run_reports; rel: R01/R2/NEST; extra: subset of
    {numbr, getxony, d2p, setbounds, inverse_api, inverse_lemmas, inverse_self, n1_forward, n1_inverse, n1_init, n1_setbounds}"""
    repo = Repo()
    sf = ce.SPEC_FUNCS
    cfg = "N=%d" % N
    reps, lems, errors, funcs = [], [], [], []
    if N >= 2:
        reps += single_run_reports(repo, N, single)
        if "numbr" in extra:
            reps.append(verify.verify(repo, ce.calculate_numbr(N), ce.SCHEMA, [], {}, sf, inline=set(), config=cfg,
                                      defer=True, timeout_ms=TIMEOUT))
        if "getxony" in extra:
            ls = {(ce.FILE, "Evolvent.__GetXonY", 0): ce.getxony_loop(N)}
            reps.append(verify.verify(repo, ce.getxony(N), ce.SCHEMA, [ce.calculate_numbr(N)], ls, sf, inline=set(),
                                      config=cfg, defer=True, timeout_ms=TIMEOUT))
        if "d2p" in extra:
            reps.append(verify.verify(repo, ce.transform_d2p(N), ce.SCHEMA, [], {}, sf, inline=set(), config=cfg, defer=True))
        if "setbounds" in extra:
            reps.append(verify.verify(repo, ce.set_bounds(N), ce.SCHEMA, [], {}, sf, inline=set(), config=cfg, defer=True))
        if "inverse_api" in extra:
            for nm in ("GetInverseImage", "GetPreimages"):
                reps.append(verify.verify(repo, ce.inverse_api(nm, N), ce.SCHEMA, [ce.getxony(N), ce.transform_d2p(N)], {},
                                          sf, inline=set(), config=cfg, defer=True, timeout_ms=TIMEOUT))
        for name, fn, label in (("rel", lambda: er.lemmas(repo, N, rel) if rel else [], "Evolvent.__GetYonX (2-run product)"),
                                ("inverse_lemmas", lambda: er.inverse_lemmas(repo, N),
                                 "Evolvent.__GetXonY x Evolvent.__GetYonX (lock-step product)"),
                                ("inverse_self", lambda: er.inverse_self_lemmas(repo, N), "Evolvent.__GetXonY (2-run product)")):
            if name != "rel" and name not in extra:
                continue
            try:
                obs = fn()
                if obs:
                    funcs.append("%s::%s" % (ce.FILE, label))
                lems += [discharge.serialize(o) for o in obs]
            except (Unsupported, EngineError) as e:
                errors.append(("%s N=%d" % (label, N), str(e)))
    else:
        if "n1_forward" in extra:
            reps.append(verify.verify(repo, ce.get_image_1(), ce.SCHEMA, [ce.transform_p2d(1)], {}, sf,
                                      inline={("Evolvent", "__GetYonX")}, config="N=1", defer=True))
            reps.append(verify.verify(repo, ce.transform_p2d(1), ce.SCHEMA, [], {}, sf, inline=set(), config="N=1", defer=True))
        if "n1_inverse" in extra:
            reps.append(verify.verify(repo, ce.transform_d2p(1), ce.SCHEMA, [], {}, sf, inline=set(), config="N=1", defer=True))
            for nm in ("GetInverseImage", "GetPreimages"):
                reps.append(verify.verify(repo, ce.inverse_api_1(nm), ce.SCHEMA, [ce.transform_d2p(1)], {}, sf,
                                          inline={("Evolvent", "__GetXonY")}, config="N=1", defer=True))
        if "n1_init" in extra:
            reps.append(verify.verify(repo, ce.evolvent_init(1), ce.SCHEMA, [], {}, sf, inline=set(), config="N=1", defer=True))
        if "n1_setbounds" in extra:
            reps.append(verify.verify(repo, ce.set_bounds(1), ce.SCHEMA, [], {}, sf, inline=set(), config="N=1", defer=True))
    return dict(reps=reps, lems=lems, errors=errors, funcs=funcs)


def run_parallel(chk, single, rel, extra, Ns=(1, 2, 3, 4, 5), more_reports=(), more_lemmas=()):
    """generate in parallel (one worker per dimension), then discharge everything in one batch"""
    tasks = [("props.evolvent_common", "gen_task", (N, tuple(single), tuple(rel), tuple(extra))) for N in sorted(Ns, reverse=True)]
    outs = discharge.run_tasks(tasks)
    reps, lems = list(more_reports), [discharge.serialize(o) for o in more_lemmas]
    for o in outs:
        reps += o["reps"]
        lems += o["lems"]
        chk.errors += o["errors"]
        chk.functions |= set(o["funcs"])
    verify.finish_reports(reps)
    for rep in reps:
        chk.add_report(rep)
    discharge_lemmas(chk, lems)
