"""Registry of property checks.  tools/gen_manifest.py turns this into MANIFEST.json.

CLAIMED[id] = dict(module=..., category=..., text=..., note=..., technique=..., design_ref=...)
NOT_APPLICABLE[id] = reason
Every property id of properties.jsonl must be in exactly one of the two.
"""

CLAIMED = {}

NOT_APPLICABLE = {
    "C%02d" % i: "check not built yet in this session (see DESIGN.md section 8 build order); not verified, not claimed"
    for i in range(1, 21)
}


def claim(pid, **kw):
    CLAIMED[pid] = kw
    NOT_APPLICABLE.pop(pid, None)
