"""C08 - Evolvent is a continuous (Hoelder) space-filling curve (DESIGN 5.C08)."""
import json
from pyvc.frontend import Repo
from pyvc import verify, runner
from contracts import evolvent as ce
from . import evolvent_common as ec

PID = "C08"


def run(tier, seed):
    chk = runner.Check(PID, tier, seed)
    ec.run_parallel(chk, ("node", "getyonx", "p2d", "getimage"), ("R01", "R2", "NEST"), (), Ns=ec.NS)
    chk.assumptions += [
        ec.ASSUME_FLOAT, ec.ASSUME_NUMPY, ec.ASSUME_PRODUCT,
        "UNMECHANISED CONSEQUENCE: the third sentence of C08 (||y(x')-y(x'')|| <= 2*sqrt(N+3)*|x'-x''|^(1/N)*side for "
        "|x'-x''| >= 2^(-N*m)) is the classical corollary (Strongin & Sergeyev 2000, Thm 8.1) of the two facts proved "
        "here - face adjacency of consecutive subintervals at every level j <= m (R2) and nesting of levels (NEST + "
        "R01); the derivation is on paper in DESIGN section 9 and is not machine-checked; no code change can affect it",
        "adjacency is proved for cell indices (R2-adjacent); that the centres then differ by exactly one cell width on "
        "that axis follows from GetImage's post-condition centre_i = lower_i + (k_i + 1/2)*(upper_i-lower_i)/2^m",
        "configurations: N in {2,...,5} enumerated; density m and the box are symbolic (unbounded)"]

    def oracle(item):
        return ec.native_oracle("c08", item, seed) or ec.native_oracle("c07", item, seed)

    return chk.finish(oracle=oracle)


def replay(path):
    doc = json.load(open(path))
    fi = doc.get("failing_input")
    if not fi:
        print("replay file names the failed obligation only (no failing input was found):", doc["failed_obligation"])
        return 1
    case = dict(N=fi["N"], m=fi["m"], lower=fi["lower"], upper=fi["upper"], via_setbounds=fi.get("via_setbounds", False),
                xs=[v for v in (fi.get("x"), fi.get("x2")) if v is not None])
    out = 0
    for mode in ("c08", "c07"):
        res = runner.native("native/evolvent_oracle.py", {"mode": mode, "cases": [case]})
        print(json.dumps(res, indent=1))
        out |= 1 if res["failures"] else 0
    return out
