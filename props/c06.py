"""C06 - search information is a faithful, ordered, complete record (method layer; DESIGN 5.C06)."""
from . import method_common as mc

PID = "C06"
WHICH = ['Method.CalculateDelta', 'Method.FirstIteration', 'Method.RenewSearchData', 'Method.CalculateFunctionals', 'OptimizationTask.Calculate', 'Process.DoGlobalIteration']
EXTRA = ["fidelity of stored points/values: the new item's point is imgv(evolvent, x) (CalculateIterationPoint/FirstIteration) and its value objf(problem, point) (CalculateFunctionals); that LATER iterations do not touch stored points and values is carried by the frame conditions of every function (they write only the fields listed in `modifies`)", 'scope: the global search (DoGlobalIteration, Solve without refinement); DoLocalRefinement rewrites the stored optimum item (known finding D7)']


def run(tier, seed):
    return mc.run_check(PID, tier, seed, WHICH, "c06", EXTRA, post=mc.d7_obligation, known_matcher=mc.d7_matcher)


def replay(path):
    return mc.replay_generic(path, "c06")
