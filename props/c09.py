"""C09 - Inverse image is consistent with the image (DESIGN 5.C09)."""
import json, time
import z3
from pyvc.frontend import Repo
from pyvc import verify, runner, discharge
from pyvc.symexec import Obligation
from pyvc.sym import Unsupported, EngineError
from contracts import evolvent as ce
from contracts import evolvent_rel as er
from . import evolvent_common as ec

PID = "C09"


def roundtrip_lemma():
    """Mathematical glue (no code): a cell centre lies within half a cell (closed) of exactly one cell centre."""
    k, k2 = z3.Ints("k k2")
    P = z3.Real("P")
    c = (z3.ToReal(k) + 0.5) / P - 0.5
    c2 = (z3.ToReal(k2) + 0.5) / P - 0.5
    r = 1 / (2 * P)
    goal = z3.Implies(z3.And(P >= 1, c2 - c <= r, c - c2 <= r), k == k2)
    return Obligation("lemma:C09-roundtrip:L0#0", "lemma", "mathematical lemma", 0, [], goal,
                      "|centre(k') - centre(k)| <= half a cell  =>  k' = k  (so inverse(image(x)) selects x's own cell; "
                      "with the injectivity R01 its subinterval number is floor(x*D^m))")


def run(tier, seed):
    chk = runner.Check(PID, tier, seed)
    ec.run_parallel(chk, ("node", "getyonx", "p2d", "getimage"), ("R01",),
                    ("numbr", "getxony", "d2p", "inverse_api", "inverse_lemmas", "n1_forward", "n1_inverse"),
                    more_lemmas=[roundtrip_lemma()])
    chk.inlined |= {"Evolvent.__GetYonX (N=1 path only)", "Evolvent.__GetXonY (N=1 path only)"}
    chk.assumptions += [
        ec.ASSUME_FLOAT + "; for the inverse direction this is the property's own 'up to floating-point rounding'",
        ec.ASSUME_NUMPY, ec.ASSUME_PRODUCT,
        "the forward run in the lock-step product reads the digits produced by the inverse run; such an x exists "
        "(x = returned left end + any offset inside the subinterval), which is the GetImage contract's gidx clause",
        "configurations: N in {1,...,5} enumerated; density m and the box are symbolic (unbounded); y anywhere in the "
        "closed box"]

    def oracle(item):
        return ec.native_oracle("c09", item, seed)

    return chk.finish(oracle=oracle)


def replay(path):
    doc = json.load(open(path))
    fi = doc.get("failing_input")
    if not fi:
        print("replay file names the failed obligation only (no failing input was found):", doc["failed_obligation"])
        return 1
    case = dict(N=fi["N"], m=fi["m"], lower=fi["lower"], upper=fi["upper"], via_setbounds=fi.get("via_setbounds", False),
                xs=[fi["x"]] if fi.get("x") is not None else [], ys=[fi["y"]] if fi.get("y") is not None else [])
    res = runner.native("native/evolvent_oracle.py", {"mode": "c09", "cases": [case]})
    print(json.dumps(res, indent=1))
    return 1 if res["failures"] else 0
