"""C19 - Search-data containers act as an ordered set plus max-priority queues (DESIGN 5.C19)."""
import json, os
from pyvc.frontend import Repo
from pyvc import verify, runner
from contracts import search_data as csd
from . import solver_common as sc

PID = "C19"
F = csd.F_SD


def plan():
    """the verification tasks of this check: (contract, callee contracts, loop contracts, configuration tag)"""
    from contracts import core as cc
    depq = csd.depq_contracts()
    cq = csd.cq_contracts()
    tasks = []
    # CharacteristicsQueue against the ASSUMED DEPQ contract
    for c in cq:
        tasks.append((c, depq, {}, ""))
    for dual in (False, True):
        cls = "SearchDataDualQueue" if dual else "SearchData"
        cfg = "dual" if dual else ""
        sd = csd.sd_contracts(dual)
        sdq = csd.sd_queue_contracts(dual)
        allc = sd + sdq
        hinted = [c for c in sd if c.name != "InsertDataItem" or getattr(c, "tag", "") == "hint"]
        base = cq + hinted + sdq + [cc.solution_init()]
        if dual:
            # calls through super() resolve to the plain container's methods: their (separately verified) contracts
            plain = csd.sd_contracts(False) + csd.sd_queue_contracts(False)
            base = base + [c for c in plain if c.name != "InsertDataItem" or getattr(c, "tag", "") == "hint"]
        loops = csd.loop_specs(cls, dual)
        for c in allc:
            if dual and c.name in ("InsertFirstDataItem", "__iter__", "__next__", "FindDataItemByOneDimensionalPoint",
                                   "GetCount", "GetLastItem"):
                continue          # inherited unchanged: verified once for the base class
            callees = [x for x in base if not (x.qual == c.qual)]
            tag = getattr(c, "tag", "")
            tasks.append((c, callees, loops, cfg + ("," if cfg and tag else "") + tag))
    return tasks


def build_one(i):
    """worker entry: verification conditions of task i (regenerated from /repo's current source)"""
    repo = Repo()
    con, callees, loops, config = plan()[i]
    return verify.verify(repo, con, csd.SCHEMA, callees, loops, csd.SPEC_FUNCS, inline=set(sc.INLINE_ACCESSORS), defer=True,
                         timeout_ms=int(os.environ.get('PYVC_TIMEOUT_MS', '60000')), safety=True, config=config, prune=True)


def build(repo=None, tier="quick"):
    from pyvc import discharge
    import os
    only = os.environ.get("PYVC_ONLY")         # development aid: restrict to functions whose name contains this
    idx = [i for i, t in enumerate(plan()) if not only or only in t[0].qual]
    return discharge.run_tasks([("props.c19", "build_one", (i,)) for i in idx])


def run(tier, seed):
    chk = runner.Check(PID, tier, seed)
    repo = Repo()
    reps = build(repo, tier)
    verify.finish_reports(reps)
    for rep in reps:
        chk.add_report(rep)
    chk.inlined |= {"SearchDataItem one-line accessors (GetX/GetZ/GetIndex/GetLeft/GetRight/Set*)"}
    chk.assumptions += [
        sc.ASSUME_PY,
        "ASSUMED contract of depq.DEPQ (dependency, not verified): abstract state = entries sorted by decreasing priority, "
        "equal priorities in insertion order; insert places the entry after all entries of priority >= its own and, when a "
        "bounded queue overflows, drops the last entry; popfirst/poplast remove the first/last entry; clear; is_empty; len; "
        "maxlen; an item's entry count is positive iff it has an entry.  'A bounded queue retains the highest-priority "
        "entries' is this assumed contract transported through CharacteristicsQueue.Insert",
        "maxlen=None is encoded as 0 (a DEPQ constructed with maxlen=0 is outside the scope)",
        "container-level contracts (InsertDataItem, RefillQueue, GetDataItemWithMaxGlobalR) are stated for unbounded queues, "
        "the only kind Solver constructs; priorities are reals or +-inf (no NaN)",
        "pre-conditions are derived from the code and its call sites: the container is seeded by InsertFirstDataItem before "
        "any other operation; a hinted insert names a member other than the first item and a coordinate between its "
        "neighbours; a hintless insert has first.x <= x < last.x; an inserted item is not already a member.  Traversal or "
        "refill of a never-seeded container raises StopIteration in CPython: outside the claimed pre-condition",
        "history quantifier: well-formedness (WF) is an object invariant established by InsertFirstDataItem and preserved by "
        "every operation, so it holds after every finite sequence of operations that respects the pre-conditions "
        "(induction over the sequence = the modular-verification meta-theorem)",
    ]
    _c = {}

    def oracle(item):
        if "r" not in _c:
            _c["r"] = runner.native("native/container_oracle.py", {"seed": seed, "n": 300 if tier == "quick" else 5000})
        r = _c["r"]
        return r["failures"][0] if r["failures"] else None

    return chk.finish(oracle=oracle)


def replay(path):
    doc = json.load(open(path))
    print(json.dumps(doc.get("failing_input") or doc.get("counter_model"), indent=1)[:3000])
    res = runner.native("native/container_oracle.py", {"seed": 0, "n": 2000})
    print(json.dumps(res, indent=1)[:3000])
    return 1 if res["failures"] or not doc.get("failing_input") else 0
