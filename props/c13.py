"""C13 - Listener contract: complete, ordered, non-interfering notification (DESIGN 5.C13)."""
import ast
from pyvc.frontend import Repo
from pyvc import verify
from contracts import method as cm
from . import method_common as mc

PID = "C13"
WHICH = ["Process.DoGlobalIteration", "Process.Solve", "Process.GetResults"]
LABELS = {"global iteration count: ": "numberOfGlobalTrials", "local iteration count: ": "numberOfLocalTrials",
          "solving time: ": "solvingTime", "solution point: ": "bestTrialPoint", "solution value: ": "bestTrialValue",
          "accuracy: ": "solutionAccuracy"}


def arity_obligations(chk, repo):
    """every call `listener.X(a1..ak)` in Process must be accepted by Listener.X and by every shipped override"""
    proc = repo.cls("Process")
    sites = []
    for fn in proc.methods.values():
        for n in ast.walk(fn):
            if isinstance(n, ast.Call) and isinstance(n.func, ast.Attribute) and isinstance(n.func.value, ast.Name) and \
                    n.func.value.id == "listener":
                sites.append((fn.name, n.func.attr, len(n.args), [k.arg for k in n.keywords], n.lineno))
    subs = [ci for name, ci in repo.classes.items() if "::" not in name and "Listener" in [c.name for c in repo.mro(ci.name)]]
    for (where, meth, npos, kws, line) in sites:
        for ci in subs:
            fn = ci.methods.get(meth)
            if fn is None:
                continue
            a = fn.args
            names = [x.arg for x in a.args][1:]
            req = len(names) - len(a.defaults)
            ok = (a.vararg is not None or npos <= len(names)) and npos + len(kws) >= req and all(k in names or a.kwarg for k in kws)
            chk.add_lemma("arity:%s.%s@Process.%s:L%d" % (ci.name, meth, where, line), "proved" if ok else "refuted",
                          "syntactic-scan", 0.0, clause="%s.%s accepts the %d positional argument(s) passed by Process.%s" %
                          (ci.name, meth, npos, where), func="%s::%s.%s" % (ci.module.relpath, ci.name, meth),
                          model=None if ok else {"signature": names, "call_args": npos})
    for meth in ("BeforeMethodStart", "OnEndIteration", "OnMethodStop"):
        ok = any(s[1] == meth for s in sites)
        chk.add_lemma("protocol:%s-is-notified" % meth, "proved" if ok else "refuted", "syntactic-scan", 0.0,
                      clause="Process notifies %s" % meth, func="iOpt/method/process.py::Process")


def console_obligations(chk, repo):
    """ConsoleOutputer.printResult prints each parameter under its label (data flow of the str.format calls)"""
    ci = repo.cls("ConsoleOutputer")
    fn = ci.methods.get("printResult") if ci else None
    found = {}
    if fn is not None:
        for n in ast.walk(fn):
            if isinstance(n, ast.Call) and isinstance(n.func, ast.Attribute) and n.func.attr == "format" and len(n.args) >= 2 \
                    and isinstance(n.args[0], ast.Constant) and n.args[0].value in LABELS:
                a = n.args[1]
                if isinstance(a, ast.Call) and isinstance(a.func, ast.Name) and a.func.id == "str" and a.args:
                    a = a.args[0]
                found[n.args[0].value] = a.id if isinstance(a, ast.Name) else ast.unparse(a)
    for lab, par in LABELS.items():
        ok = found.get(lab) == par
        chk.add_lemma("console:label:%s" % lab.strip(), "proved" if ok else "refuted", "syntactic-scan", 0.0,
                      clause="printResult prints parameter %s under the label %r" % (par, lab),
                      func="iOpt/output_system/console/console_output.py::ConsoleOutputer.printResult",
                      model=None if ok else {"printed": found.get(lab)})


from .solver_common import shipped_listener_frames


def run(tier, seed):
    def post(chk):
        repo = Repo()
        arity_obligations(chk, repo)
        console_obligations(chk, repo)
        shipped_listener_frames(chk, repo)
        # run-time evaluation of the non-interference clause for every shipped listener over its documented parameter
        # combinations (finite) on one problem per dimension: bounded in the problem, so never counted as proof - but a run
        # whose trial sequence or result changes when the listener is attached is a failing input on the real code
        from pyvc import runner as _r
        try:
            res = _r.native("native/method_oracle.py", {"mode": "c13listeners", "seed": seed}, timeout=600)
            chk.bounded.append(dict(what="every shipped listener (console excepted: its report has its own contract) x documented "
                                         "parameter combinations, Solve with vs. without the listener: same search information "
                                         "and result", bound="%d listener configurations, one objective per dimension (1-D, 2-D), "
                                                             "25 iterations" % res.get("evaluated", 0), counted_as_proof=False))
            for f in res.get("failures", []):
                chk.native_failures.append(f)
        except Exception as e:
            chk.errors.append(("shipped-listener run-time check", repr(e)[:300]))
        cons = cm.console_contracts()
        rep = verify.verify(repo, cons[1], cm.SCHEMA, [cons[0]], {}, cm.SPEC_FUNCS, inline=set(mc.INLINE), safety=True,
                            overrides=cm.OVERRIDES, timeout_ms=20000)
        chk.add_report(rep)
    extra = ["trace: the ghost sequence world().gt* receives one entry per listener callback (interface contract); the "
             "post-conditions of DoGlobalIteration / Solve describe the entries added (kind, listener, arguments, order)",
             "'exactly the new trials of that call in order': the list handed to OnEndIteration holds, in order, the last "
             "`number` entries of the insertion log _allTrials - the items evaluated by this call",
             "non-interference: the interface contract of callbacks (T5) writes nothing of the solver, so every INV clause and "
             "the trial sequence are unchanged by notifications; the shipped listeners / painters / console "
             "outputers are checked against the same frame by a write-effect analysis of every function of iOpt/output_system "
             "(conservative, syntactic; aliasing through a listener's own fields is not tracked); what matplotlib / sklearn do "
             "is not verified",
             "scope of Solve: refineSolution == False"]
    return mc.run_check(PID, tier, seed, WHICH, "c13", extra, post=post)


def replay(path):
    return mc.replay_generic(path, "c13")
