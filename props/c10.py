"""C10 - Declared optimum of every benchmark instance is its true global minimum (DESIGN 5.C10)."""
import json
from pyvc import runner
from . import bench_common as bc
from . import c14

PID = "C10"
FAMS = ["Hill", "Shekel", "Rastrigin", "XSquared", "StronginC3", "Shekel4", "Grishagin"]


def run(tier, seed):
    chk = runner.Check(PID, tier, seed)
    res = bc.run_native("optimum", families=FAMS, jobs=12)
    bc.add_family_results(chk, res, "declared-optimum", "interval-branch-and-bound",
                          "on the real Calculate executed on intervals: |f(x*) - f*| <= 1e-4; forall x in the box (feasible set "
                          "for StronginC3): f(x) >= f* - 2e-3 max(1,|f*|); outside the 0.5%-of-side ball around x* the function "
                          "is nowhere below the best value inside it")
    g = c14.gkls(chk, tier)
    chk.functions |= {"iOpt/problems/%s.py::%s.Calculate" % (m, c) for m, c in
                      (("hill", "Hill"), ("shekel", "Shekel"), ("shekel4", "Shekel4"), ("grishagin", "Grishagin"),
                       ("GKLS", "GKLS"), ("rastrigin", "Rastrigin"), ("xsquared", "XSquared"), ("stronginC3", "StronginC3"))}
    chk.functions |= {"iOpt/problems/grishagin_function/grishagin_function.py::GrishaginFunction.Calculate"}
    chk.extra["exhaustive"] = True
    chk.trusted += ["T7 libm sin/cos/exp/sqrt are within 4 ulp of the mathematical functions (interval back end inflates by that)",
                    "pyvc/ival.py (own outward-rounded interval arithmetic, branch and bound)"]
    chk.assumptions += [
        "Hill 0..999, Shekel 0..999, Grishagin 1..100, Shekel4 1..3, StronginC3 are enumerated exhaustively; every box point is "
        "covered by executing the REAL Calculate on intervals (math/np references of the problem module shimmed for the call)",
        "Rastrigin / XSquared 'in any dimension': proved for dimension 1..5 on the real code; for larger dimension the objective is "
        "the sum over coordinates of the same one-dimensional non-negative term (argued from the loop, not machine-checked)",
        "GKLS (400 functions): global minimum -1 at minimiser 1 follows from the structural contract (exhaustive), the ball "
        "lemmas (interval proof on the polar form of the cubic splice) and the paraboloid being >= 0 outside the balls; the "
        "link between the polar form and the real CalculateDFunction is sampled only (bounded_stand_ins)",
    ]
    return chk.finish(oracle=None)


def replay(path):
    doc = json.load(open(path))
    print(json.dumps(doc.get("failing_input"), indent=1)[:2000])
    return 1 if doc.get("failing_input") else 0
