"""C16 - objective failure is contained (method layer; DESIGN 5.C16)."""
from . import method_common as mc

PID = "C16"
WHICH = ['OptimizationTask.Calculate', 'Method.CalculateFunctionals', 'Method.FirstIteration', 'Process.DoGlobalIteration', 'Process.Solve']
EXTRA = ["the failure may happen at ANY evaluation: the exceptional post-condition of DoGlobalIteration is proved for a raise at the call inside an arbitrary iteration under INV; Solve's handler catches BaseException (every class the interface contract allows)"]


def run(tier, seed):
    return mc.run_check(PID, tier, seed, WHICH, "c16", EXTRA)


def replay(path):
    return mc.replay_generic(path, "c16")
