"""C18 - Problem metadata is well-formed and the published Hill/Shekel tables agree with the functions (DESIGN 5.C18)."""
import json
from pyvc import runner
from . import bench_common as bc

PID = "C18"


def run(tier, seed):
    chk = runner.Check(PID, tier, seed)
    meta = bc.run_native("meta")
    bc.add_family_results(chk, meta, "metadata-contract", "finite-enumeration",
                          "constructor post-condition: dimension = len(names) = len(lower) = len(upper), lower < upper, one "
                          "objective, one known optimum inside the box - evaluated on every member of the family")
    tab = bc.run_native("tables", **({} if tier == "thorough" else {}))
    bc.add_family_results(chk, tab, "published-tables", "interval-branch-and-bound",
                          "forall x in [lower, upper] on the real Calculate (interval execution): min/max values within 1e-4, "
                          "locations within 1e-4 of the range, Lipschitz constant within 0.1% (f' by forward-mode AD)")
    chk.functions |= {"iOpt/problems/%s.py::%s.__init__" % (m, c) for m, c in
                      (("hill", "Hill"), ("shekel", "Shekel"), ("shekel4", "Shekel4"), ("grishagin", "Grishagin"),
                       ("GKLS", "GKLS"), ("rastrigin", "Rastrigin"), ("xsquared", "XSquared"), ("stronginC3", "StronginC3"))}
    chk.functions |= {"iOpt/problems/hill.py::Hill.Calculate", "iOpt/problems/shekel.py::Shekel.Calculate"}
    chk.extra["exhaustive"] = True
    chk.trusted += ["T7 libm sin/cos/exp/sqrt are within 4 ulp of the mathematical functions (interval back end inflates by that)",
                    "pyvc/ival.py (own outward-rounded interval arithmetic, forward-mode AD, branch and bound)"]
    chk.assumptions += [
        "finite families are enumerated exhaustively (Hill 0..999, Shekel 0..999, Grishagin 1..100, GKLS 2..5 x 1..100, Shekel4 "
        "1..3, StronginC3); Rastrigin and XSquared are checked for dimension 1..5 (their constructors are uniform in the "
        "dimension: every vector is allocated with shape=(dimension) and filled with a constant)",
        "the post-condition is evaluated on the object the REAL constructor builds (run-time evaluation of the contract over "
        "the whole finite domain = exhaustive); the table obligations quantify over every point of the box and are "
        "discharged by executing the REAL Calculate on intervals (module references to math/np are shimmed for the call)",
    ]
    return chk.finish(oracle=None)


def replay(path):
    doc = json.load(open(path))
    print(json.dumps(doc.get("failing_input"), indent=1)[:2000])
    return 1 if doc.get("failing_input") else 0
