"""C05 - All evaluations and the result stay inside the box; refinement never worsens (DESIGN 5.C05)."""
from . import method_common as mc

PID = "C05"
WHICH = ["Method.CalculateFunctionals", "OptimizationTask.Calculate", "Method.FirstIteration", "Method.CalculateIterationPoint",
         "Process.DoGlobalIteration", "Process.problemCalculate", "Process.DoLocalRefinement"]
EXTRA = [
    "global phase: CalculateFunctionals REQUIRES its point to be inbox(evolvent, .); the requirement is discharged at every call "
    "site from GetImage's post-condition (the abstract of the 'image strictly inside the box' contract, which this check re-proves "
    "on the real evolvent code for N = 1..5, symbolic density and box); OptimizationTask."
    "Calculate evaluates the objective at exactly that point - for every objective (it only enters through its interface contract)",
    "the evolvent's box is the problem's box (Solver.__init__ post-condition, verified under C20)",
    "refinement: scipy.optimize.minimize is a dependency behind an ASSUMED contract whose in-box guarantee has `bounds=` as its "
    "PRECONDITION: the obligations at the call site are that the bounds are passed, that they are the problem's bound vectors "
    "and that x0 (the optimum) lies in the box; the SciPy implementation itself is not verified (bounded native runs in the "
    "oracle, not counted)",
]


def run(tier, seed):
    def post(chk):
        # the premise "every image lies in the box" is re-proved here on the real evolvent code (the contracts of C07/C17:
        # node, __GetYonX, __TransformP2D, GetImage, __init__ for N = 1..5), so that a change inside the evolvent that
        # moves images out of the box fails an obligation of THIS check
        from . import evolvent_common as ec
        ec.run_parallel(chk, ("node", "getyonx", "p2d", "getimage", "init"), (), ())
        chk.bounded.append(dict(what="SciPy Nelder-Mead against the assumed contract: native refining Solve runs on monotone / "
                                     "boundary-minimum objectives in dimension 1..3 (native/method_oracle.py mode c05)",
                                bound="15 runs", counted_as_proof=False))
    return mc.run_check(PID, tier, seed, WHICH, "c05", EXTRA, post=post)


def replay(path):
    return mc.replay_generic(path, "c05")
