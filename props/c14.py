"""C14 - GKLS functions have the promised structure and are reproducible (DESIGN 5.C14)."""
import json, ast
from pyvc import runner
from pyvc.frontend import Repo
from . import solver_common as sc

PID = "C14"
RECORDED = 0.93113217376043778          # the repository's recorded value of GKLS(3,1) at (0.9, 0.5, 0.3) (test/problem/test_GKLS.py)


def gkls(chk, tier, want_lemma=True):
    res = runner.native("native/gkls_check.py", {"jobs": 12, "link_points": 60 if tier == "quick" else 600}, timeout=3400)
    n = res["instances"]
    real = [f for f in res["failures"] if not f.get("undecided")]
    und = [f for f in res["failures"] if f.get("undecided")]
    chk.items.append(dict(key="gkls-structure", name="finite:GKLS-structural-contract", func="GKLSFunction (generator state)",
                          kind="finite-enumeration",
                          clause="for all %d functions: 10 minimisers inside the box, pairwise non-overlapping attraction balls, class "
                                 "distance and radius of the global minimiser, values 0 / -1 / > -1, one global minimiser, exact "
                                 "prescribed value at each of the 10 minimisers (real Calculate), declared optimum = minimiser 1, "
                                 "bit-identical regeneration" % n,
                          status="proved" if not real and res["n_failures"] == len(und) else "refuted", backend="finite-enumeration",
                          time=0.0, model=None, reason=""))
    chk.finite.append(dict(name="GKLS structural contract", count=n, failed=len(real)))
    if want_lemma:
        chk.items.append(dict(key="gkls-ball-lemma", name="lemma:GKLS-ball-minimum", func="GKLSFunction.CalculateDFunction (cubic splice)",
                              kind="interval-branch-and-bound",
                              clause="%d ball lemmas: forall rho in [0, rho_i], |s| <= |T - M_i|: cubic_i(rho, s) >= f_i (%d boxes)"
                                     % (res["ball_lemmas"], res["lemma_boxes"]),
                              status="proved" if not und and not real else ("unknown" if und else "refuted"),
                              backend="interval-branch-and-bound", time=0.0, model=None, reason="; ".join(u["what"] for u in und[:3])))
    for f in real[:5]:
        chk.native_failures.append(dict(what=f["what"], func="GKLS"))
    chk.bounded.append(dict(what="link between the polar form of the cubic splice used by the ball lemma / the continuity identity "
                                 "and the real CalculateDFunction: %d random points (half inside attraction balls), worst relative "
                                 "difference %.2e" % (res["link_points"], res["link_worst_rel_err"]),
                            bound="%d points" % res["link_points"], counted_as_proof=False))
    return res


def run(tier, seed):
    chk = runner.Check(PID, tier, seed)
    res = gkls(chk, tier)
    ok = bool(res.get("knuth_ok"))
    chk.add_lemma("rng:knuth-check-value", "proved" if ok else "refuted", "native-evaluation", 0.0,
                  clause="Initialize(310952) followed by 2009 x GenerateNextNumbers leaves ran_u[0] = 0.27452626307394156768 "
                         "(the published self-test of Knuth's ranf_start/ranf_array that GKLS ships)",
                  func="iOpt/problems/GKLS_function/gkls_random.py::GKLSRandomGenerator",
                  model=None if ok else {"observed": res.get("knuth_value")})
    ss = res.get("seed_sensitivity") or {"checked": 0, "failures": ["not evaluated"]}
    chk.add_lemma("rng:seed-space-is-30-bits", "proved" if ss["checked"] and not ss["failures"] else "refuted", "native-evaluation", 0.0,
                  clause="the generator state depends on every one of the low 30 bits of the seed and on no higher bit (published "
                         "ranf_start: seed & 0x3fffffff); checked for the extreme seeds of dimensions 2 and 5, all 32 bit flips "
                         "(%d initialisations)" % ss["checked"],
                  func="iOpt/problems/GKLS_function/gkls_random.py::GKLSRandomGenerator.Initialize",
                  model=None if not ss["failures"] else {"sites": ss["failures"]})
    ok2 = res.get("recorded_value") == RECORDED
    chk.add_lemma("repro:recorded-reference-value", "proved" if ok2 else "refuted", "native-evaluation", 0.0,
                  clause="GKLS(3,1) at (0.9, 0.5, 0.3) equals the repository's recorded reference value %r" % RECORDED,
                  func="iOpt/problems/GKLS.py::GKLS.Calculate", model=None if ok2 else {"observed": res.get("recorded_value")})
    # continuity: the cubic splice meets the paraboloid on the ball boundary (polynomial identity of the polar form)
    import sympy as sp
    r, s, n2, f0, fi = sp.symbols("rho_i s n2 f0 fi")
    a = n2 + f0 - fi
    cubic = (2 * s / r ** 2 - 2 * a / r ** 3) * r ** 3 + (1 - 4 * s / r + 3 * a / r ** 2) * r ** 2 + fi
    parab = r ** 2 - 2 * r * s + n2 + f0
    ident = sp.simplify(cubic - parab) == 0
    chk.add_lemma("continuity:cubic-equals-paraboloid-on-ball-boundary", "proved" if ident else "refuted", "sympy", 0.0,
                  clause="cubic_i(rho_i, s) - (rho_i^2 - 2 rho_i s + |T - M_i|^2 + f_0) == 0 identically",
                  func="GKLSFunction.CalculateDFunction (polar form)")
    # reproducibility: the construction path reads no clock / random module / global state
    repo = Repo()
    sc.global_state_scan(chk, repo, classes=["GKLS", "GKLSFunction", "GKLSRandomGenerator"])
    for rel in ("iOpt/problems/GKLS.py", "iOpt/problems/GKLS_function/gkls_function.py", "iOpt/problems/GKLS_function/gkls_random.py"):
        mi = repo.modules[rel]
        bad = [v for v in mi.imports.values() if v.split(".")[0] in ("random", "time", "datetime", "os", "secrets", "uuid")]
        bad += ["numpy.random" for n in ast.walk(mi.tree) if isinstance(n, ast.Attribute) and n.attr == "random"]
        chk.add_lemma("repro:no-nondeterministic-source:%s" % rel, "proved" if not bad else "refuted", "syntactic-scan", 0.0,
                      clause="%s uses no clock, OS entropy or library random generator" % rel, func=rel,
                      model=None if not bad else {"uses": bad[:5]})
    chk.functions |= {"iOpt/problems/GKLS.py::GKLS.__init__", "iOpt/problems/GKLS.py::GKLS.Calculate",
                      "iOpt/problems/GKLS_function/gkls_function.py::GKLSFunction.CalculateDFunction",
                      "iOpt/problems/GKLS_function/gkls_function.py::GKLSFunction.GKLS_arg_generate",
                      "iOpt/problems/GKLS_function/gkls_function.py::GKLSFunction.GKLS_set_basins",
                      "iOpt/problems/GKLS_function/gkls_random.py::GKLSRandomGenerator.Initialize",
                      "iOpt/problems/GKLS_function/gkls_random.py::GKLSRandomGenerator.GenerateNextNumbers"}
    chk.extra["exhaustive"] = True
    chk.trusted += ["pyvc/ival.py (own outward-rounded interval arithmetic, branch and bound)", "sympy (polynomial identity)"]
    chk.assumptions += [
        "the family GKLS(dimension 2..5, number 1..100) is finite: the structural contract is evaluated on the state the REAL "
        "generator builds for each of the 400 members (exhaustive), and the prescribed values are compared exactly with the "
        "REAL Calculate at each of the 4,000 minimisers",
        "'continuous' and 'equals the paraboloid outside the balls' are statements about every point of the box: they are "
        "reduced to (i) the polynomial identity above and (ii) the branch structure of CalculateDFunction (first ball "
        "containing x, else the paraboloid); the agreement of that reading with the real code is only SAMPLED "
        "(bounded_stand_ins) - not counted as proof",
        "no further recorded reference values exist in the repository or offline besides Knuth's check value and the one value "
        "in test/problem/test_GKLS.py",
    ]
    return chk.finish(oracle=None)


def replay(path):
    doc = json.load(open(path))
    print(json.dumps(doc.get("failing_input"), indent=1)[:2000])
    return 1 if doc.get("failing_input") else 0
