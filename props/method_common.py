"""Shared driver of the Method/Process checks (C02 C03 C04 C06 C16 C13 C11 C05): verification tasks, parallel generation."""
import os
from pyvc.frontend import Repo
from pyvc import verify, discharge
from contracts import method as cm, search_data as csd, core as cc
from . import solver_common as sc

INLINE = set(sc.INLINE_ACCESSORS) | {("Method", "GetIterationsCount"), ("Method", "GetOptimumEstimation")}


def all_contracts():
    """every contract of the method layer by qualified name (callee side)"""
    cs = {}
    for c in csd.cq_contracts() + [x for x in csd.sd_contracts(False) if x.name != "InsertDataItem" or getattr(x, "tag", "") == "hint"] \
            + csd.sd_queue_contracts(False):
        cs[c.qual] = c
    for f in (cc.function_value_init, cc.point_init, cc.trial_init, cc.search_data_item_init):
        c = f()
        cs[c.qual] = c
    for c in [cm.get_image_abs(), cm.problem_calculate()] + cm.listener_contracts() + cm.method_contracts():
        cs[c.qual] = c
    return cs


def plan(which=None):
    cs = all_contracts()
    tasks = []
    for c in cm.method_contracts():
        callees = [x for q, x in cs.items() if q != c.qual]
        tasks.append((c, callees, cm.loop_specs(), ""))
    if which:
        tasks = [t for t in tasks if t[0].qual in which]
    return tasks


def build_one(i, which=None):
    repo = Repo()
    con, callees, loops, config = plan(which)[i]
    return verify.verify(repo, con, cm.SCHEMA, callees, loops, cm.SPEC_FUNCS, inline=set(INLINE), defer=True,
                         timeout_ms=int(os.environ.get("PYVC_TIMEOUT_MS", "40000")), safety=True, config=config, prune=True,
                         overrides=cm.OVERRIDES)


def build(which=None):
    only = os.environ.get("PYVC_ONLY")
    idx = [i for i, t in enumerate(plan(which)) if not only or only in t[0].qual]
    return discharge.run_tasks([("props.method_common", "build_one", (i, which)) for i in idx])
