"""Shared driver of the Method/Process checks (C02 C03 C04 C06 C16 C13 C11 C05): verification tasks, parallel generation."""
import os
from pyvc.frontend import Repo
from pyvc import verify, discharge
from contracts import method as cm, search_data as csd, core as cc
from . import solver_common as sc

INLINE = set(sc.INLINE_ACCESSORS) | {("Method", "GetIterationsCount"), ("Method", "GetOptimumEstimation")}


def all_contracts():
    """every contract of the method layer by qualified name (callee side)"""
    cs = {}
    for c in csd.cq_contracts() + [x for x in csd.sd_contracts(False) if x.name != "InsertDataItem" or getattr(x, "tag", "") == "hint"] \
            + csd.sd_queue_contracts(False):
        cs[c.qual] = c
    for f in (cc.function_value_init, cc.point_init, cc.trial_init, cc.search_data_item_init):
        c = f()
        cs[c.qual] = c
    for c in [cm.get_image_abs(), cm.problem_calculate()] + cm.listener_contracts() + cm.method_contracts():
        cs[c.qual] = c
    return cs


def plan(which=None):
    cs = all_contracts()
    tasks = []
    for c in cm.method_contracts():
        callees = [x for q, x in cs.items() if q != c.qual]
        tasks.append((c, callees, cm.loop_specs(), ""))
    from contracts import core as cc
    ls = dict(cm.loop_specs())
    ls[("iOpt/evolvent/evolvent.py", "Evolvent.__init__", 0)] = cc.evolvent_init_loop()
    for c, callees in cm.establishment_tasks():
        tasks.append((c, callees, ls, ""))
    # the constructors the base case relies on (bodies verified against the contracts used above)
    for f in (cc.method_init, cc.process_init, cc.optimization_task_init, cc.solution_init):
        c = f()
        tasks.append((c, [x() for x in cc.CONSTRUCTORS if x is not f], ls, ""))
    if which:
        tasks = [t for t in tasks if t[0].qual in which]
    return tasks


def build_one(i, which=None):
    repo = Repo()
    con, callees, loops, config = plan(which)[i]
    return verify.verify(repo, con, cm.SCHEMA, callees, loops, cm.SPEC_FUNCS, inline=set(INLINE), defer=True,
                         timeout_ms=int(os.environ.get("PYVC_TIMEOUT_MS", "40000")), safety=True, config=config, prune=True,
                         overrides=cm.OVERRIDES)


def build(which=None):
    only = os.environ.get("PYVC_ONLY")
    idx = [i for i, t in enumerate(plan(which)) if not only or only in t[0].qual]
    return discharge.run_tasks([("props.method_common", "build_one", (i, which)) for i in idx])


# ----------------------------------------------------------------------------- per-property drivers
from pyvc import runner

ASSUME_COMMON = [
    sc.ASSUME_PY,
    "T3: floats are reals; +-inf are two constants; 'no float overflow' is assumed where a contract says so "
    "(CalculateGlobalR: a characteristic computed from finite operands is finite)",
    "INTERFACE contract of the user's objective (hypothesis of the properties, T5): Problem.Calculate returns a value holder "
    "(the supplied one or a new object) whose value is a function objf(problem, point contents) of the point, writes nothing "
    "but the supplied holder, terminates or raises any BaseException",
    "INTERFACE contract of listener callbacks (T5): a callback writes nothing reachable from the solver",
    "Evolvent.GetImage is used through an abstract of its contract verified under C07/C17 (fresh result, only the scratch "
    "vector written, result = imgv(evolvent, x), a function of x and the configuration); copy.deepcopy of a fresh item and "
    "depq.DEPQ are behind ASSUMED contracts (T6)",
    "configuration: one objective, no constraints (the only kind Method evaluates); dimension N >= 1 symbolic, "
    "pow(d, 1/N) and pow(a, N) are the uninterpreted hroot / rpow with their defining axioms (root positive, "
    "rpow(hroot(d,N),N) = d, rpow monotone); r > 1; evolvent configuration never changed after construction",
    "history quantifier ('after any number of iterations', 'at every moment'): INV is an object invariant established by "
    "FirstIteration and preserved by the iteration body, by DoGlobalIteration and by Solve - induction over the history is "
    "the modular-verification meta-theorem, not a per-run obligation",
]


# base case of every 'after any number of iterations' / 'at every moment' property of this group: a freshly constructed
# solver satisfies the pre-condition of its first Solve / DoGlobalIteration
ESTABLISH = ["Solver.__init__", "SearchData.__init__", "Method.__init__", "Process.__init__", "OptimizationTask.__init__",
             "Solution.__init__",
             # the public API layer: the entry points users call are exactly the Process operations
             "Solver.Solve", "Solver.DoGlobalIteration", "Solver.DoLocalRefinement", "Solver.GetResults"]


# clauses that only some properties state (regular expressions over the clause text of an obligation).  Everything else
# (the shared object invariant, safety, frames, termination) belongs to every property of the group.
import re
_TRACE = re.compile(r"\bgt(n|kind|who|a|b)\b|\bgb0\b|\bgp_[a-z]+\b|\bgsaved\b")
_CHAR = re.compile(r"\bgcnt\b|\bgkeys\b|\bgitems\b|\bglen\b|\bglobalR\b|\brs\(|\bslope\(|\bdepq_ok\b|\brpow\(")
SCOPE = [(_TRACE, {"C13"}), (_CHAR, {"C02", "C01"})]


def in_scope_for(pid):
    def f(item):
        kind = str(item.get("kind", ""))
        if not kind.startswith(("ensures", "inv-", "requires[", "ghost-assert", "raises")) or "#nonnull" in kind:
            return True          # safety, frames, arity, termination, division: every property's business
        txt = item.get("clause", "") or ""
        for rx, pids in SCOPE:
            if rx.search(txt) and pid not in pids:
                # a clause that ALSO mentions something else is still that other property's clause only if every
                # tagged family it mentions excludes this property
                return False
        return True
    return f


def run_check(pid, tier, seed, which, oracle_mode, extra_assumptions=(), post=None, known_matcher=None):
    chk = runner.Check(pid, tier, seed)
    if True:
        # every property of this group is a statement about whole runs: it depends on the complete iteration body and its
        # drivers, so every function of the method layer is verified in every check (a clause that only another property
        # states is filtered by `in_scope_for`); `which` documents the functions the property is anchored in
        which = list(which) + [c.qual for c in cm.method_contracts() if c.qual not in which]
    which = list(which) + [e for e in ESTABLISH if e not in which]
    reps = build(which)
    verify.finish_reports(reps)
    for rep in reps:
        chk.add_report(rep)
    chk.inlined |= {"SearchDataItem one-line accessors (GetX/GetZ/GetIndex/GetLeft/GetRight/Set*)", "Method.min_delta property"}
    chk.assumptions += ASSUME_COMMON + list(extra_assumptions)
    if post:
        post(chk)
    if pid in ("C04", "C06"):
        # "inside every listener callback" / "listeners consume exactly this record": the shipped listeners must not write
        # what they are handed (same frame obligations as in C13's check)
        sc.shipped_listener_frames(chk, Repo())
    cache = {}

    def oracle(item):
        if "r" not in cache:
            cache["r"] = runner.native("native/method_oracle.py", {"mode": oracle_mode, "seed": seed}, timeout=1500)
        r = cache["r"]
        return r["failures"][0] if r["failures"] else None
    return chk.finish(oracle=oracle, known_matcher=known_matcher, in_scope=in_scope_for(pid))


def d7_obligation(chk):
    """C06/C04 scope obligation: DoLocalRefinement must not write into the search information.  It does (known finding D7):
    `result.bestTrials[0]` IS the stored optimum item, whose point and value holder are overwritten while its z stays."""
    import ast
    repo = Repo()
    ci, fn = repo.find_method("Process", "DoLocalRefinement")
    sites = []
    if fn is not None:
        for n in ast.walk(fn):
            if isinstance(n, ast.Assign):
                for t in n.targets:
                    src = ast.unparse(t)
                    if "bestTrials[0]" in src and (src.endswith(".floatVariables") or src.endswith(".value") or src.endswith(".point")):
                        sites.append("line %d: %s = ..." % (n.lineno, src))
    chk.add_lemma("frame:DoLocalRefinement-leaves-the-search-information-unchanged", "proved" if not sites else "refuted",
                  "effect-analysis", 0.0,
                  clause="DoLocalRefinement writes no field of a stored search item (Solution.bestTrials[0] is the stored optimum item)",
                  func="iOpt/method/process.py::Process.DoLocalRefinement", model=None if not sites else {"D7": True, "sites": sites})


def d7_matcher(item, entry):
    if entry.get("key") != "D7":
        return False
    if isinstance(item, dict) and str(item.get("name", "")).startswith("frame:DoLocalRefinement"):
        return True
    return isinstance(item, dict) and bool(item.get("D7"))


def replay_generic(path, oracle_mode):
    import json
    doc = json.load(open(path))
    print(json.dumps(doc.get("failing_input") or doc.get("counter_model"), indent=1)[:3000])
    res = runner.native("native/method_oracle.py", {"mode": oracle_mode, "seed": 0}, timeout=1500)
    print(json.dumps(res, indent=1)[:3000])
    return 1 if res["failures"] or not doc.get("failing_input") else 0
