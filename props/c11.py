"""C11 - Determinism and independence from how iterations are batched (DESIGN 5.C11)."""
import ast
from pyvc.frontend import Repo
from . import method_common as mc, solver_common as sc

PID = "C11"
WHICH = ["Process.DoGlobalIteration", "Process.Solve", "Process.GetResults", "Method.CheckStopCondition",
         "Method.FinalizeIteration", "Method.CalculateIterationPoint"]
STEP_FUNCS = [("Method", n) for n in ("FirstIteration", "CalculateIterationPoint", "CalculateFunctionals", "UpdateOptimum",
                                      "RenewSearchData", "FinalizeIteration", "RecalcAllCharacteristics",
                                      "CalculateNextPointCoordinate", "CalculateM", "CalculateGlobalR", "CalculateDelta")] + \
             [("OptimizationTask", "Calculate"), ("SearchData", "InsertDataItem"), ("SearchData", "InsertFirstDataItem"),
              ("SearchData", "GetDataItemWithMaxGlobalR"), ("SearchData", "RefillQueue"), ("SearchData", "ClearQueue"),
              ("CharacteristicsQueue", "Insert"), ("CharacteristicsQueue", "GetBestItem")]
NONDET = {"random", "time", "datetime", "uuid", "secrets", "os", "threading", "multiprocessing"}


def run(tier, seed):
    def post(chk):
        repo = Repo()
        sc.global_state_scan(chk, repo, classes=["Solver", "Process", "Method", "SearchData", "SearchDataItem",
                                                 "CharacteristicsQueue", "OptimizationTask", "Evolvent", "Solution"])
        # the iteration step reads neither the stop parameters nor any clock / random source / batch size
        for cn, mn in STEP_FUNCS:
            ci, fn = repo.find_method(cn, mn)
            if fn is None:
                chk.add_lemma("reads:%s.%s" % (cn, mn), "refuted", "syntactic-scan", 0.0, clause="function exists",
                              func="%s.%s" % (cn, mn), model={"missing": True})
                continue
            bad = []
            for n in ast.walk(fn):
                if isinstance(n, ast.Attribute) and n.attr in ("eps", "itersLimit", "epsR", "refineSolution") and \
                        isinstance(n.ctx, ast.Load):
                    bad.append("reads .%s at line %d" % (n.attr, n.lineno))
                if isinstance(n, ast.Name) and n.id in NONDET:
                    bad.append("uses %s at line %d" % (n.id, n.lineno))
                if isinstance(n, ast.Call) and isinstance(n.func, ast.Name) and n.func.id in ("id", "hash", "input", "open"):
                    bad.append("calls %s() at line %d" % (n.func.id, n.lineno))
            chk.add_lemma("reads:%s.%s" % (cn, mn), "proved" if not bad else "refuted", "syntactic-scan", 0.0,
                          clause="%s.%s reads neither eps / itersLimit nor a clock, random source or object identity" % (cn, mn),
                          func="%s::%s.%s" % (ci.module.relpath, cn, mn), model=None if not bad else {"sites": bad[:5]})
        # the batch size and the loop counter are not read by the loop body of DoGlobalIteration
        ci, fn = repo.find_method("Process", "DoGlobalIteration")
        loops = [n for n in ast.walk(fn) if isinstance(n, ast.For) and isinstance(n.iter, ast.Call) and
                 getattr(n.iter.func, "id", "") == "range"]
        bad = []
        for lp in loops:
            tgt = lp.target.id if isinstance(lp.target, ast.Name) else None
            for st in lp.body:
                for n in ast.walk(st):
                    if isinstance(n, ast.Name) and isinstance(n.ctx, ast.Load) and n.id in ("number", tgt):
                        bad.append("line %d reads %s" % (n.lineno, n.id))
        chk.add_lemma("batching:step-independent-of-batch-size", "proved" if loops and not bad else "refuted", "syntactic-scan", 0.0,
                      clause="the body of the iteration loop of DoGlobalIteration reads neither `number` nor the loop counter "
                             "(DoGlobalIteration(k) = k times the same step)", func="iOpt/method/process.py::Process.DoGlobalIteration",
                      model=None if loops and not bad else {"sites": bad[:5]})
    extra = ["determinism: every verified function is a deterministic function of the state it reads (the executor met no "
             "nondeterministic primitive: the wall clock flows only into Solution.solvingTime, which no step function reads); "
             "DEPQ and the objective are deterministic by their assumed/interface contracts",
             "batching: DoGlobalIteration(k) is k repetitions of one step that does not read k (syntactic obligation) and never "
             "checks the stop criterion; Solve repeats the same one-step call while the criterion does not hold "
             "(verified loop); the criterion is stable (accuracy never increases: CalculateIterationPoint; the iteration "
             "counter never decreases), so a second Solve performs no trial (post-condition of Solve)",
             "GetResults has an empty frame (modifies nothing): looking at the results cannot change the search"]
    return mc.run_check(PID, tier, seed, WHICH, "c11", extra, post=post)


def replay(path):
    return mc.replay_generic(path, "c11")
