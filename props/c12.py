"""C12 - Solver instances are isolated from one another (DESIGN 5.C12): fresh footprints + frames."""
import json
from pyvc.frontend import Repo
from pyvc import verify, runner
from . import solver_common as sc

PID = "C12"


METHOD_FUNCS = ["Method.FirstIteration", "Method.CalculateIterationPoint"]


def in_scope(item):
    f = str(item.get("func", ""))
    if not any(q in f for q in METHOD_FUNCS):
        return True
    kind = str(item.get("kind", ""))
    if not kind.startswith(("ensures", "requires[", "ghost-assert", "inv-", "raises")) or "#nonnull" in kind:
        return True
    return "fresh(" in (item.get("clause", "") or "")


def run(tier, seed):
    chk = runner.Check(PID, tier, seed)
    repo = Repo()
    reps = sc.constructor_reports(repo)
    verify.finish_reports(reps)
    for rep in reps:
        chk.add_report(rep)
    sc.global_state_scan(chk, repo)
    # ownership at run time: every item the method creates (and stores in the search information / publishes as the optimum)
    # owns freshly allocated point and value holders - nothing handed in by the user (Problem, SolverParameters, start point)
    # is aliased into a solver's footprint.  The item-creating functions of the method layer are re-verified here; only their
    # freshness / ownership clauses are in C12's scope.
    from . import method_common as mc
    mreps = mc.build(METHOD_FUNCS)
    verify.finish_reports(mreps)
    for rep in mreps:
        chk.add_report(rep)
    chk.inlined |= {"SearchDataItem one-line accessors (GetX/GetZ/GetIndex/GetLeft/GetRight/Set*)", "Method.min_delta property"}
    chk.assumptions += [
        sc.ASSUME_PY, sc.ASSUME_FRAME,
        "assumed contract of depq.DEPQ: its constructor returns a new queue object sharing no state with other queues",
        "assumed contract of numpy: np.copy / np.zeros / np.ndarray allocate fresh storage",
        "configuration: problems with 1 objective and 0 constraints (the only kind the AGP Method evaluates); "
        "dimension, bounds, parameters symbolic",
        "scope of this check: constructors of the whole solver object graph (every footprint member fresh, problem and "
        "parameters only referenced, never written) + absence of class/module-level mutable state in the footprint "
        "classes; the per-method frames (modifies within the solver's footprint) are obligations of the method "
        "contracts verified under C06/C19/C02",
    ]
    _oracle_cache = {}

    def oracle(item):
        if "r" not in _oracle_cache:
            _oracle_cache["r"] = sc.solver_oracle("c12", seed)
        return _oracle_cache["r"]

    return chk.finish(oracle=oracle, in_scope=in_scope)


def replay(path):
    doc = json.load(open(path))
    print(json.dumps(doc.get("failing_input") or doc.get("counter_model"), indent=1)[:3000])
    res = runner.native("native/solver_oracle.py", {"mode": "c12", "seed": 0})
    print(json.dumps(res, indent=1)[:3000])
    return 1 if res["failures"] or not doc.get("failing_input") else 0
