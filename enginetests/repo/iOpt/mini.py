"""Synthetic functions for the verifier's own regression suite (never part of iOpt): every `*_bad` variant violates the
contract its `*_good` twin satisfies.  The suite (pyvc/enginetest.py) demands: good -> all obligations proved, bad -> at
least one obligation not proved."""


class Box:
    def __init__(self):
        self.items = []
        self.count = 0
        self.total = 0.0
        self.other = None


class Helper:
    def risky(self, b):
        """behind an interface contract: may raise any exception"""
        return 1.0


def push_good(b, v):
    b.items.append(v)
    b.count = b.count + 1


def push_bad(b, v):            # forgets the counter
    b.items.append(v)


def frame_good(b, c):
    b.count = 5


def frame_bad(b, c):           # writes an object outside its frame
    b.count = 5
    c.count = 6


def alias_good(b, c):
    b.count = 1
    c.count = 2
    return b.count


def swallow_good(h, b):
    v = h.risky(b)
    b.total = v
    return True


def swallow_bad(h, b):         # a narrower handler catches SOME of the exceptions the callee may raise
    try:
        v = h.risky(b)
    except ArithmeticError:
        v = 0.0
    b.total = v
    return True


def loop_good(b, n):
    i = 0
    while i < n:
        b.items.append(1.0)
        i = i + 1
    b.count = b.count + n


def loop_bad(b, n):            # one element too many
    i = 0
    while i <= n:
        b.items.append(1.0)
        i = i + 1
    b.count = b.count + n


def deref_good(b):
    if b.other is not None:
        return b.other.count
    return 0


def deref_bad(b):              # None dereference
    return b.other.count


def index_good(b, k):
    if 0 <= k and k < len(b.items):
        return b.items[k]
    return 0.0


def index_bad(b, k):           # off-by-one bound
    if 0 <= k and k <= len(b.items):
        return b.items[k]
    return 0.0


def callee_pre_good(h, b):
    if b is not None:
        return h.risky(b)
    return 0.0


def callee_pre_bad(h, b):      # passes a possibly-None argument where the callee's contract wants an object
    return h.risky(b.other)


def branch_good(x):
    if x < 0:
        return -x
    return x


def branch_bad(x):             # wrong on one side of the branch
    if x < -1:
        return -x
    return x
