"""Native demonstration of known finding D7 (C06, C04) on the real iOpt:  PYTHONPATH=/repo /venv/bin/python findings/D7_demo.py"""
import io, contextlib, numpy as np
from iOpt.problem import Problem
from iOpt.solver import Solver
from iOpt.solver_parametrs import SolverParameters
from iOpt.evolvent.evolvent import Evolvent


class P(Problem):
    def __init__(self):
        super().__init__()
        self.dimension = self.numberOfFloatVariables = 2
        self.numberOfObjectives, self.numberOfConstraints = 1, 0
        self.floatVariableNames = np.array(["x", "y"])
        self.lowerBoundOfFloatVariables = np.array([-1.0, -1.0])
        self.upperBoundOfFloatVariables = np.array([1.0, 1.0])
        self.log = []

    def Calculate(self, point, fv):
        v = float((point.floatVariables[0] - 0.3) ** 2 + (point.floatVariables[1] + 0.2) ** 2)
        self.log.append(v)
        fv.value = v
        return fv


p = P()
s = Solver(p, SolverParameters(r=3.0, eps=0.1, itersLimit=200, refineSolution=True))
with contextlib.redirect_stdout(io.StringIO()):
    sol = s.Solve()
best = s.method.best
ev = Evolvent(p.lowerBoundOfFloatVariables, p.upperBoundOfFloatVariables, 2, 10)
img = ev.GetImage(best.GetX())
print("stored optimum item: x =", best.GetX())
print("  stored point        ", list(map(float, best.GetY().floatVariables)))
print("  evolvent image of x ", list(map(float, img)))
print("  GetZ()              ", best.GetZ(), "  value in its holder", best.functionValues[0].value)
refined = sol.bestTrials[0].functionValues[0].value
with contextlib.redirect_stdout(io.StringIO()):
    s.DoGlobalIteration(400)
after = s.GetResults().bestTrials[0].functionValues[0].value
print("reported optimum after the refining Solve:", refined, "; after 400 further global iterations:", after,
      "; smallest value ever evaluated:", min(p.log))
assert not np.allclose(best.GetY().floatVariables, img) or best.GetZ() != best.functionValues[0].value or after > min(p.log) + 1e-15, \
    "D7 did not manifest"
print("D7 manifests: stored item unfaithful (C06) / reported optimum worse than an evaluated trial (C04)")
