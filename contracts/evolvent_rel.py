"""Relational (2-run product) lemmas about the density loop of Evolvent.__GetYonX (DESIGN 2.4, 5.C07/C08).

The loop body that is executed here is the real one: each run is a symbolic execution of /repo's current
FunctionDef from an arbitrary loop-head state satisfying the single-run invariant I1 (proved separately).
Only the coupling invariants below are specification.

R01 (C07: image is a function of the subinterval, and injective):
    (gidx_a == gidx_b and state_a == state_b and cell_a == cell_b)  or  (gidx_a != gidx_b and cell_a != cell_b)
R2  (C08: consecutive subintervals -> face-adjacent cells), with diff = gidx_b - gidx_a:
    diff == 0 and equal  |  diff == 1 and Adj(ax, dl) and J(ax, dl)  |  diff not in {0, 1}
    J = "exit corner of a's cell = entry corner of b's cell": the sign vector run a produces on digit D-1 and
    the one run b produces on digit 0 agree except on the axis ax, where they are (dl, -dl).
"""
import z3
from pyvc.sym import *
from pyvc.symexec import Obligation
from pyvc import verify
from . import evolvent as ce

LABEL = "Evolvent.__GetYonX#loop0"


def product_records(repo, N):
    recs = {}
    for pfx in ("a_", "b_"):
        eng = verify.make_engine(repo, ce.SCHEMA, [ce.calculate_node(N)],
                                 {(ce.FILE, "Evolvent.__GetYonX", 0): ce.getyonx_loop(N)}, ce.SPEC_FUNCS,
                                 inline=set(), prefix=pfx)
        eng.verify_function(ce.getyonx(N))
        rec = eng.loop_records[LABEL]
        if len(rec["posts"]) != 1:
            raise EngineError("expected exactly one merged post-state of the density loop body, got %d" % len(rec["posts"]))
        recs[pfx] = (eng, rec)
    return recs


def view(eng, st, N):
    env = st.env
    return dict(
        it=to_z3(env["it"], IntS),
        iw=[to_z3(eng.vec_get(st, env["iw"], i), IntS) for i in range(N)],
        gk=[to_z3(env["gk%d" % i], IntS) for i in range(N)],
        gidx=to_z3(env["gidx"], IntS),
    )


def same_sigma(A, B, N):
    return z3.And(A["it"] == B["it"], *[A["iw"][i] == B["iw"][i] for i in range(N)])


def same_cells(A, B, N):
    return z3.And(*[A["gk"][i] == B["gk"][i] for i in range(N)])


def R01(A, B, N):
    return z3.Or(z3.And(A["gidx"] == B["gidx"], same_sigma(A, B, N), same_cells(A, B, N)),
                 z3.And(A["gidx"] != B["gidx"], z3.Not(same_cells(A, B, N))))


def Adj(A, B, N, ax, dl):
    return z3.And(*[B["gk"][i] - A["gk"][i] == z3.If(ax == i, dl, 0) for i in range(N)])


def J(A, B, N, ax, dl):
    Sa = [A["iw"][i] * z3.If(A["it"] == i, 1, -1) for i in range(N)]      # sign vector of run a on digit D-1
    Sb = [-B["iw"][i] for i in range(N)]                                    # sign vector of run b on digit 0
    return z3.And(*[z3.If(ax == i, z3.And(Sa[i] == dl, Sb[i] == -dl), Sa[i] == Sb[i]) for i in range(N)])


def R2(A, B, N, ax, dl):
    diff = B["gidx"] - A["gidx"]
    return z3.Or(z3.And(diff == 0, same_sigma(A, B, N), same_cells(A, B, N)),
                 z3.And(diff == 1, ax >= 0, ax < N, z3.Or(dl == 1, dl == -1), Adj(A, B, N, ax, dl), J(A, B, N, ax, dl)),
                 diff >= 2, diff <= -1)


def lemmas(repo, N, which=("R01", "R2", "NEST")):
    """returns list of Obligation"""
    recs = product_records(repo, N)
    (ea, ra), (eb, rb) = recs["a_"], recs["b_"]
    D = 2 ** N
    obs = []
    cfg = "[N=%d]" % N

    def mk(name, hyps, goal, note):
        obs.append(Obligation("Evolvent.__GetYonX(x2):%s:L0#%d%s" % (name, len(obs), cfg), name,
                              "Evolvent.__GetYonX (2-run product)", 0, hyps, goal, note))

    ax_a = list(ea.axioms) + list(eb.axioms)
    ent_a, ent_b = view(ea, ra["entry"], N), view(eb, rb["entry"], N)
    pre_a, pre_b = view(ea, ra["pre"], N), view(eb, rb["pre"], N)
    post_a, post_b = view(ea, ra["posts"][0], N), view(eb, rb["posts"][0], N)
    h_entry = ax_a + list(ra["entry"].pc) + list(rb["entry"].pc)
    h_step = ax_a + list(ra["posts"][0].pc) + list(rb["posts"][0].pc)
    if "R01" in which:
        mk("R01-entry", h_entry, R01(ent_a, ent_b, N), "coupling invariant R01 holds at loop entry")
        mk("R01-step", h_step + [R01(pre_a, pre_b, N)], R01(post_a, post_b, N),
           "R01 is preserved by one level of both runs (real loop body, digits arbitrary)")
        # consequences at loop exit (pure logic over the invariant)
        mk("R01-function-of-subinterval", ax_a + [R01(pre_a, pre_b, N), pre_a["gidx"] == pre_b["gidx"]],
           same_cells(pre_a, pre_b, N), "same subinterval number => same cell")
        mk("R01-injective", ax_a + [R01(pre_a, pre_b, N), pre_a["gidx"] != pre_b["gidx"]],
           z3.Not(same_cells(pre_a, pre_b, N)), "different subintervals => different cells")
    if "R2" in which:
        ax, dl = z3.Int("rel_ax"), z3.Int("rel_dl")
        mk("R2-entry", h_entry, R2(ent_a, ent_b, N, ax, dl), "coupling invariant R2 holds at loop entry (diff = 0)")
        goal = z3.Or(*[R2(post_a, post_b, N, z3.IntVal(a2), z3.IntVal(d2)) for a2 in range(N) for d2 in (1, -1)])
        mk("R2-step", h_step + [R2(pre_a, pre_b, N, ax, dl)], goal,
           "R2 (adjacency + exit/entry corner invariant J) is preserved by one level of both runs")
        mk("R2-adjacent", ax_a + [R2(pre_a, pre_b, N, ax, dl), pre_b["gidx"] - pre_a["gidx"] == 1],
           z3.And(ax >= 0, ax < N, z3.Or(dl == 1, dl == -1), Adj(pre_a, pre_b, N, ax, dl)),
           "consecutive subintervals => cells differ in exactly one coordinate by one cell")
    if "NEST" in which:
        # single-run step facts used for nesting: each level refines the cell index by one bit per axis and the
        # subinterval number by one base-D digit
        hs = list(ea.axioms) + list(ra["posts"][0].pc)
        g = [z3.Or(post_a["gk"][i] == 2 * pre_a["gk"][i], post_a["gk"][i] == 2 * pre_a["gk"][i] + 1) for i in range(N)]
        dig = post_a["gidx"] - D * pre_a["gidx"]
        mk("NEST-step", hs, z3.And(dig >= 0, dig <= D - 1, *g),
           "level j+1: cell index = 2*parent + bit per axis, subinterval number = D*parent + digit")
    return obs
