"""Relational (2-run product) lemmas about the density loop of Evolvent.__GetYonX (DESIGN 2.4, 5.C07/C08).

The loop body that is executed here is the real one: each run is a symbolic execution of /repo's current
FunctionDef from an arbitrary loop-head state satisfying the single-run invariant I1 (proved separately).
Only the coupling invariants below are specification.

R01 (C07: image is a function of the subinterval, and injective):
    (gidx_a == gidx_b and state_a == state_b and cell_a == cell_b)  or  (gidx_a != gidx_b and cell_a != cell_b)
R2  (C08: consecutive subintervals -> face-adjacent cells), with diff = gidx_b - gidx_a:
    diff == 0 and equal  |  diff == 1 and Adj(ax, dl) and J(ax, dl)  |  diff not in {0, 1}
    J = "exit corner of a's cell = entry corner of b's cell": the sign vector run a produces on digit D-1 and
    the one run b produces on digit 0 agree except on the axis ax, where they are (dl, -dl).
"""
import z3
from pyvc.sym import *
from pyvc.symexec import Obligation
from pyvc import verify
from . import evolvent as ce

LABEL = "Evolvent.__GetYonX#loop0"


def product_records(repo, N):
    recs = {}
    for pfx in ("a_", "b_"):
        eng = verify.make_engine(repo, ce.SCHEMA, [ce.calculate_node(N)],
                                 {(ce.FILE, "Evolvent.__GetYonX", 0): ce.getyonx_loop(N)}, ce.SPEC_FUNCS,
                                 inline=set(), prefix=pfx)
        eng.verify_function(ce.getyonx(N))
        rec = eng.loop_records[LABEL]
        if len(rec["posts"]) != 1:
            raise EngineError("expected exactly one merged post-state of the density loop body, got %d" % len(rec["posts"]))
        recs[pfx] = (eng, rec)
    return recs


def view(eng, st, N):
    env = st.env
    return dict(
        it=to_z3(env["it"], IntS),
        iw=[to_z3(eng.vec_get(st, env["iw"], i), IntS) for i in range(N)],
        gk=[to_z3(env["gk%d" % i], IntS) for i in range(N)],
        gidx=to_z3(env["gidx"], IntS),
    )


def same_sigma(A, B, N):
    return z3.And(A["it"] == B["it"], *[A["iw"][i] == B["iw"][i] for i in range(N)])


def same_cells(A, B, N):
    return z3.And(*[A["gk"][i] == B["gk"][i] for i in range(N)])


def R01(A, B, N):
    return z3.Or(z3.And(A["gidx"] == B["gidx"], same_sigma(A, B, N), same_cells(A, B, N)),
                 z3.And(A["gidx"] != B["gidx"], z3.Not(same_cells(A, B, N))))


def Adj(A, B, N, ax, dl):
    return z3.And(*[B["gk"][i] - A["gk"][i] == z3.If(ax == i, dl, 0) for i in range(N)])


def J(A, B, N, ax, dl):
    Sa = [A["iw"][i] * z3.If(A["it"] == i, 1, -1) for i in range(N)]      # sign vector of run a on digit D-1
    Sb = [-B["iw"][i] for i in range(N)]                                    # sign vector of run b on digit 0
    return z3.And(*[z3.If(ax == i, z3.And(Sa[i] == dl, Sb[i] == -dl), Sa[i] == Sb[i]) for i in range(N)])


def R2(A, B, N, ax, dl):
    diff = B["gidx"] - A["gidx"]
    return z3.Or(z3.And(diff == 0, same_sigma(A, B, N), same_cells(A, B, N)),
                 z3.And(diff == 1, ax >= 0, ax < N, z3.Or(dl == 1, dl == -1), Adj(A, B, N, ax, dl), J(A, B, N, ax, dl)),
                 diff >= 2, diff <= -1)


def lemmas(repo, N, which=("R01", "R2", "NEST")):
    """returns list of Obligation"""
    recs = product_records(repo, N)
    (ea, ra), (eb, rb) = recs["a_"], recs["b_"]
    D = 2 ** N
    obs = []
    cfg = "[N=%d]" % N

    def mk(name, hyps, goal, note):
        obs.append(Obligation("Evolvent.__GetYonX(x2):%s:L0#%d%s" % (name, len(obs), cfg), name,
                              "Evolvent.__GetYonX (2-run product)", 0, hyps, goal, note))

    ax_a = list(ea.axioms) + list(eb.axioms)
    ent_a, ent_b = view(ea, ra["entry"], N), view(eb, rb["entry"], N)
    pre_a, pre_b = view(ea, ra["pre"], N), view(eb, rb["pre"], N)
    post_a, post_b = view(ea, ra["posts"][0], N), view(eb, rb["posts"][0], N)
    h_entry = ax_a + list(ra["entry"].pc) + list(rb["entry"].pc)
    h_step = ax_a + list(ra["posts"][0].pc) + list(rb["posts"][0].pc)
    if "R01" in which:
        mk("R01-entry", h_entry, R01(ent_a, ent_b, N), "coupling invariant R01 holds at loop entry")
        mk("R01-step", h_step + [R01(pre_a, pre_b, N)], R01(post_a, post_b, N),
           "R01 is preserved by one level of both runs (real loop body, digits arbitrary)")
        # consequences at loop exit (pure logic over the invariant)
        mk("R01-function-of-subinterval", ax_a + [R01(pre_a, pre_b, N), pre_a["gidx"] == pre_b["gidx"]],
           same_cells(pre_a, pre_b, N), "same subinterval number => same cell")
        mk("R01-injective", ax_a + [R01(pre_a, pre_b, N), pre_a["gidx"] != pre_b["gidx"]],
           z3.Not(same_cells(pre_a, pre_b, N)), "different subintervals => different cells")
    if "R2" in which:
        ax, dl = z3.Int("rel_ax"), z3.Int("rel_dl")
        mk("R2-entry", h_entry, R2(ent_a, ent_b, N, ax, dl), "coupling invariant R2 holds at loop entry (diff = 0)")
        goal = z3.Or(*[R2(post_a, post_b, N, z3.IntVal(a2), z3.IntVal(d2)) for a2 in range(N) for d2 in (1, -1)])
        mk("R2-step", h_step + [R2(pre_a, pre_b, N, ax, dl)], goal,
           "R2 (adjacency + exit/entry corner invariant J) is preserved by one level of both runs")
        mk("R2-adjacent", ax_a + [R2(pre_a, pre_b, N, ax, dl), pre_b["gidx"] - pre_a["gidx"] == 1],
           z3.And(ax >= 0, ax < N, z3.Or(dl == 1, dl == -1), Adj(pre_a, pre_b, N, ax, dl)),
           "consecutive subintervals => cells differ in exactly one coordinate by one cell")
    if "NEST" in which:
        # single-run step facts used for nesting: each level refines the cell index by one bit per axis and the
        # subinterval number by one base-D digit
        hs = list(ea.axioms) + list(ra["posts"][0].pc)
        g = [z3.Or(post_a["gk"][i] == 2 * pre_a["gk"][i], post_a["gk"][i] == 2 * pre_a["gk"][i] + 1) for i in range(N)]
        dig = post_a["gidx"] - D * pre_a["gidx"]
        mk("NEST-step", hs, z3.And(dig >= 0, dig <= D - 1, *g),
           "level j+1: cell index = 2*parent + bit per axis, subinterval number = D*parent + digit")
    return obs


# ----------------------------------------------------------------------------- C09: inverse loop vs forward loop
ILABEL = "Evolvent.__GetXonY#loop0"


def inverse_records(repo, N):
    ef = verify.make_engine(repo, ce.SCHEMA, [ce.calculate_node(N)],
                            {(ce.FILE, "Evolvent.__GetYonX", 0): ce.getyonx_loop(N)}, ce.SPEC_FUNCS, inline=set(), prefix="f_")
    ef.verify_function(ce.getyonx(N))
    ei = verify.make_engine(repo, ce.SCHEMA, [ce.calculate_numbr(N)],
                            {(ce.FILE, "Evolvent.__GetXonY", 0): ce.getxony_loop(N)}, ce.SPEC_FUNCS, inline=set(), prefix="i_")
    ei.verify_function(ce.getxony(N))
    rf, ri = ef.loop_records[LABEL], ei.loop_records[ILABEL]
    if len(rf["posts"]) != 1 or len(ri["posts"]) != 1:
        raise EngineError("expected one merged post-state per loop body")
    return (ef, rf), (ei, ri)


def fview(eng, st, N):
    env = st.env
    yv = eng.load(st, env["self"], "yValues")
    return dict(it=to_z3(env["it"], IntS), sg=[to_z3(eng.vec_get(st, env["iw"], i), IntS) for i in range(N)],
                gidx=to_z3(env["gidx"], IntS), r=to_z3(env["r"], RealS),
                y=[to_z3(eng.vec_get(st, yv, i), RealS) for i in range(N)],
                iis=to_z3(env["iis"], RealS) if "iis" in env and not isinstance(env["iis"], Poison) else None)


def iview(eng, st, N):
    env = st.env
    yv = eng.load(st, env["self"], "yValues")
    return dict(it=to_z3(env["it"], IntS), sg=[to_z3(eng.vec_get(st, env["w"], i), IntS) for i in range(N)],
                gidx=to_z3(env["gidx"], IntS), r=to_z3(env["r"], RealS),
                y=[to_z3(eng.vec_get(st, yv, i), RealS) for i in range(N)],
                iis=to_z3(env["iis"], RealS) if "iis" in env and not isinstance(env["iis"], Poison) else None)


def Cpl(Fv, Iv, T, N):
    return z3.And(Fv["it"] == Iv["it"], Fv["gidx"] == Iv["gidx"], Fv["r"] == Iv["r"],
                  *([Fv["sg"][i] == Iv["sg"][i] for i in range(N)] + [Fv["y"][i] + Iv["y"][i] == T[i] for i in range(N)]))


def inverse_lemmas(repo, N):
    """Lock-step coupling R3 of the inverse loop (__GetXonY) with the forward loop (__GetYonX) driven by the digits
    the inverse loop produces: same orientation state, same subinterval number, residual + forward centre = target."""
    (ef, rf), (ei, ri) = inverse_records(repo, N)
    obs = []
    cfg = "[N=%d]" % N

    def mk(name, hyps, goal, note):
        obs.append(Obligation("Evolvent.__GetXonY x __GetYonX:%s:L0#%d%s" % (name, len(obs), cfg), name,
                              "Evolvent.__GetXonY x Evolvent.__GetYonX (lock-step product)", 0, hyps, goal, note))
    ax = list(ef.axioms) + list(ei.axioms)
    T = [z3.Real("rel_T%d" % i) for i in range(N)]
    ent_f, ent_i = fview(ef, rf["entry"], N), iview(ei, ri["entry"], N)
    pre_f, pre_i = fview(ef, rf["pre"], N), iview(ei, ri["pre"], N)
    post_f, post_i = fview(ef, rf["posts"][0], N), iview(ei, ri["posts"][0], N)
    mk("R3-entry", ax + list(rf["entry"].pc) + list(ri["entry"].pc), Cpl(ent_f, ent_i, ent_i["y"], N),
       "coupling R3 holds at loop entry with target = the cube point handed to __GetXonY")
    mk("R3-step", ax + list(rf["posts"][0].pc) + list(ri["posts"][0].pc) + [Cpl(pre_f, pre_i, T, N), post_f["iis"] == post_i["iis"]],
       Cpl(post_f, post_i, T, N),
       "R3 preserved by one level when the forward run reads the digit the inverse run just produced")
    mk("R3-cell-contains-target", ax + list(rf["pre"].pc) + list(ri["pre"].pc) + [Cpl(pre_f, pre_i, T, N)],
       z3.And(*[z3.And(T[i] - pre_f["y"][i] <= pre_f["r"], pre_f["y"][i] - T[i] <= pre_f["r"]) for i in range(N)]),
       "the forward cell centre of the returned subinterval is within half a cell of the target on every axis")
    return obs


def inverse_self_lemmas(repo, N):
    """R4 (C17): two runs of the inverse loop started from equal cube points stay equal, whatever the objects'
    earlier histories were - the result of __GetXonY is a function of the cube point, N and the loop count."""
    recs = {}
    for pfx in ("a_", "b_"):
        ei = verify.make_engine(repo, ce.SCHEMA, [ce.calculate_numbr(N)],
                                {(ce.FILE, "Evolvent.__GetXonY", 0): ce.getxony_loop(N)}, ce.SPEC_FUNCS, inline=set(), prefix=pfx)
        ei.verify_function(ce.getxony(N))
        rec = ei.loop_records[ILABEL]
        if len(rec["posts"]) != 1:
            raise EngineError("expected one merged post-state of the inverse loop body")
        recs[pfx] = (ei, rec)
    (ea, ra), (eb, rb) = recs["a_"], recs["b_"]
    obs = []
    cfg = "[N=%d]" % N

    def mk(name, hyps, goal, note):
        obs.append(Obligation("Evolvent.__GetXonY(x2):%s:L0#%d%s" % (name, len(obs), cfg), name,
                              "Evolvent.__GetXonY (2-run product)", 0, hyps, goal, note))

    def eqv(A, B, sa, sb):
        xa, xb = to_z3(sa.env["x"], RealS), to_z3(sb.env["x"], RealS)
        r1a, r1b = to_z3(sa.env["r1"], RealS), to_z3(sb.env["r1"], RealS)
        return z3.And(A["it"] == B["it"], A["r"] == B["r"], xa == xb, r1a == r1b,
                      *([A["sg"][i] == B["sg"][i] for i in range(N)] + [A["y"][i] == B["y"][i] for i in range(N)]))
    ax = list(ea.axioms) + list(eb.axioms)
    ent_a, ent_b = iview(ea, ra["entry"], N), iview(eb, rb["entry"], N)
    pre_a, pre_b = iview(ea, ra["pre"], N), iview(eb, rb["pre"], N)
    post_a, post_b = iview(ea, ra["posts"][0], N), iview(eb, rb["posts"][0], N)
    same_target = z3.And(*[ent_a["y"][i] == ent_b["y"][i] for i in range(N)])
    mk("R4-entry", ax + list(ra["entry"].pc) + list(rb["entry"].pc) + [same_target],
       eqv(ent_a, ent_b, ra["entry"], rb["entry"]), "equal cube points => equal loop-entry states (no other state is read)")
    mk("R4-step", ax + list(ra["posts"][0].pc) + list(rb["posts"][0].pc) + [eqv(pre_a, pre_b, ra["pre"], rb["pre"])],
       eqv(post_a, post_b, ra["posts"][0], rb["posts"][0]), "equal states stay equal over one level of the inverse loop")
    return obs
