"""Sidecar contracts for iOpt/method/search_data.py (C19; used by C06/C02/C03/C04/C16).  Specifications only.

Ghost views (ghost fields, declared in SCHEMA, never read by the real code):
  SearchData.gseq : seq of SearchDataItem  - the items from the first item along the right links
  SearchData.gn   : int                    - its length
  SearchData.gpos : map item -> int        - position of an item in gseq (gives distinctness)
  DEPQ.gitems / gkeys / glen               - the ASSUMED abstract state of depq.DEPQ: entries sorted by decreasing
                                             priority, entries of equal priority in insertion order
  DEPQ.gcnt : map item -> int              - number of entries of an item (DEPQ keeps this count itself, in .items)
  DEPQ.maxlen == 0 encodes maxlen=None (unbounded); a DEPQ with maxlen=0 is outside the scope.
"""
import z3
from pyvc.sym import *
from pyvc.symexec import Contract, LoopSpec
from contracts.core import SCHEMA as CORE_SCHEMA, SPEC_FUNCS as CORE_SPEC, F_SD

SCHEMA = dict(CORE_SCHEMA)
SCHEMA.update({
    "gseq": "seq:SearchDataItem", "gn": "int", "gpos": "map:int",
    "gitems": "seq:SearchDataItem", "gkeys": "seq:real", "glen": "int", "gcnt": "map:int",
})


# ----------------------------------------------------------------------------- spec functions on ghost sequences
def spec_seq_insert(engine, state, s, k, v):
    """s[:k] + [v] + s[k:]"""
    i = z3.Int("si!")
    zk = to_z3(k, IntS)
    zv = to_z3(v, s.arr.sort().range())
    return ArrVal(z3.Lambda([i], z3.If(i < zk, s.arr[i], z3.If(i == zk, zv, s.arr[i - 1]))), s.elem)


def spec_seq_remove(engine, state, s, k):
    """s[:k] + s[k+1:]"""
    i = z3.Int("si!")
    zk = to_z3(k, IntS)
    return ArrVal(z3.Lambda([i], z3.If(i < zk, s.arr[i], s.arr[i + 1])), s.elem)


def spec_seq_store(engine, state, s, k, v):
    return ArrVal(z3.Store(s.arr, to_z3(k, IntS), to_z3(v, s.arr.sort().range())), s.elem)


def spec_pos_after_insert(engine, state, pos, seq, n, k, new):
    """position map after inserting `new` at index k of seq[0..n): members at index >= k move one to the right"""
    o = z3.Int("so!")
    zk, zn = to_z3(k, IntS), to_z3(n, IntS)
    member = z3.And(pos.arr[o] >= 0, pos.arr[o] < zn, seq.arr[pos.arr[o]] == o)
    lam = z3.Lambda([o], z3.If(o == new.e, zk, z3.If(z3.And(member, pos.arr[o] >= zk), pos.arr[o] + 1, pos.arr[o])))
    return ArrVal(lam, pos.elem)


def spec_empty_seq(engine, state, kind):
    sort = RealS if kind == "real" else IntS
    elem = kind if kind in ("real", "int") else "ref:" + kind
    return ArrVal(z3.K(IntS, to_z3(0, sort)), elem)




def ins_rel(new, old, n_old, p, v, eq="is"):
    """`new` (length n_old+1) is `old` (length n_old) with v inserted at index p - elementwise, both directions"""
    return ("(forall(0, {p}, lambda ei: {new}[ei] {eq} {old}[ei]) and {new}[{p}] {eq} {v} and "
            "forall({p} + 1, {n} + 1, lambda ei: {new}[ei] {eq} {old}[ei - 1]) and "
            "forall({p}, {n}, lambda ei: {new}[ei + 1] {eq} {old}[ei]))").format(new=new, old=old, n=n_old, p=p, v=v, eq=eq)


def rem0_rel(new, old, n_old, eq="is"):
    """`new` is `old` without its first element"""
    return ("(forall(0, {n} - 1, lambda ei: {new}[ei] {eq} {old}[ei + 1]) and "
            "forall(1, {n}, lambda ei: {old}[ei] {eq} {new}[ei - 1]))").format(new=new, old=old, n=n_old, eq=eq)


SPEC_FUNCS = dict(CORE_SPEC)
SPEC_FUNCS.update({"seq_insert": spec_seq_insert, "seq_remove": spec_seq_remove, "seq_store": spec_seq_store,
                   "pos_after_insert": spec_pos_after_insert, "empty_seq": spec_empty_seq})


# ----------------------------------------------------------------------------- depq.DEPQ: ASSUMED contract (T6)
def _sorted(q, n):
    return "forall(0, %s - 1, lambda qi: %s.gkeys[qi] >= %s.gkeys[qi + 1])" % (n, q, q)


def depq_contracts():
    """Assumed contract of depq.DEPQ (the dependency is not verified; bounded conformance check in native/depq_conformance.py).
    Abstract state: entries sorted by decreasing priority, stable; maxlen eviction removes the last entry."""
    cs = []
    c = Contract("<depq>", "DEPQ.__init__", params={"iterable": "any", "maxlen": "int"}, result="none",
                 modifies=["obj(self)"], allocates=False,
                 ensures=["self.glen == 0", "self.maxlen == maxlen", "self.gcnt == empty_seq('int')"] + depq_inv("self"),
                 doc="ASSUMED: a new DEPQ is empty and remembers maxlen (None encoded as 0)")
    c.defaults = {"iterable": None, "maxlen": None}
    cs.append(c)
    cs.append(Contract("<depq>", "DEPQ.insert", params={"item": "ref:SearchDataItem?", "priority": "real"}, result="none",
                       modifies=["self.gitems", "self.gkeys", "self.glen", "self.gcnt"], allocates=False,
                       ghost_results={"gp": "int"}, requires=depq_inv("self") + ["item is not None"],
                       ensures=depq_inv("self") + [
                           "implies(self.maxlen == 0 or old(self.glen) < self.maxlen, "
                           "self.gcnt == seq_store(old(self.gcnt), item, old(self.gcnt[item]) + 1))",
                           "0 <= gp and gp <= old(self.glen)",
                           "forall(0, gp, lambda qi: old(self.gkeys[qi]) >= priority)",
                           "forall(gp, old(self.glen), lambda qi: old(self.gkeys[qi]) < priority)",
                           # unbounded, or bounded and not full: the entry is inserted at its rank
                           "implies(self.maxlen == 0 or old(self.glen) < self.maxlen, self.glen == old(self.glen) + 1 and "
                           "" + ins_rel("self.gitems", "old(self.gitems)", "old(self.glen)", "gp", "item") + " and "
                           + ins_rel("self.gkeys", "old(self.gkeys)", "old(self.glen)", "gp", "priority", "==") + ")",
                           # bounded and full: inserted at its rank, then the last (lowest) entry is evicted
                           "implies(self.maxlen != 0 and old(self.glen) >= self.maxlen, self.glen == old(self.glen) and "
                           "forall(0, gp, lambda ei: self.gitems[ei] is old(self.gitems[ei]) and self.gkeys[ei] == old(self.gkeys[ei])) and "
                           "implies(gp < self.glen, self.gitems[gp] is item and self.gkeys[gp] == priority) and "
                           "forall(gp + 1, self.glen, lambda ei: self.gitems[ei] is old(self.gitems[ei - 1]) and "
                           "self.gkeys[ei] == old(self.gkeys[ei - 1])))",
                       ],
                       doc="ASSUMED: insert keeps the entries sorted (after all entries of priority >= the new one); "
                           "a full bounded queue then drops its last entry"))
    cs.append(Contract("<depq>", "DEPQ.popfirst", params={}, result="tuple(ref:SearchDataItem?,real)",
                       modifies=["self.gitems", "self.gkeys", "self.glen", "self.gcnt"], allocates=False,
                       requires=["self.glen >= 1"] + depq_inv("self"),
                       ensures=depq_inv("self") + [
                                "self.gcnt == seq_store(old(self.gcnt), result[0], old(self.gcnt[result[0]]) - 1)",
                                "forall(0, old(self.glen), lambda qi: old(self.gkeys[qi]) <= result[1])",
                                "result[0] is old(self.gitems[0]) and result[1] == old(self.gkeys[0])",
                                "self.glen == old(self.glen) - 1",
                                rem0_rel("self.gitems", "old(self.gitems)", "old(self.glen)") + " and " +
                                rem0_rel("self.gkeys", "old(self.gkeys)", "old(self.glen)", "==")],
                       doc="ASSUMED: removes and returns the first entry (highest priority, earliest inserted among equals); "
                           "IndexError on an empty queue is excluded by the pre-condition"))
    cs.append(Contract("<depq>", "DEPQ.poplast", params={}, result="tuple(ref:SearchDataItem?,real)",
                       modifies=["self.glen", "self.gcnt"], allocates=False,
                       requires=["self.glen >= 1"] + depq_inv("self"),
                       ensures=depq_inv("self") + [
                                "self.gcnt == seq_store(old(self.gcnt), result[0], old(self.gcnt[result[0]]) - 1)",
                                "forall(0, old(self.glen), lambda qi: old(self.gkeys[qi]) >= result[1])","result[0] is old(self.gitems[self.glen - 1]) and result[1] == old(self.gkeys[self.glen - 1])",
                                "self.glen == old(self.glen) - 1"],
                       doc="ASSUMED: removes and returns the last entry (lowest priority)"))
    cs.append(Contract("<depq>", "DEPQ.clear", params={}, result="none", modifies=["self.glen", "self.gcnt"], allocates=False,
                       ensures=["self.glen == 0", "self.gcnt == empty_seq('int')"] + depq_inv("self"),
                       doc="ASSUMED: empties the queue"))
    cs.append(Contract("<depq>", "DEPQ.is_empty", params={}, result="bool", modifies=[], allocates=False,
                       ensures=["result == (self.glen == 0)"], doc="ASSUMED"))
    cs.append(Contract("<depq>", "DEPQ.__len__", params={}, result="int", modifies=[], allocates=False,
                       ensures=["result == self.glen"], doc="ASSUMED"))
    return cs


DEPQ_FACTS = ["{q}.glen >= 0",
            "forall(0, {q}.glen, lambda qi: forall(qi, {q}.glen, lambda qj: {q}.gkeys[qi] >= {q}.gkeys[qj]))",
            "implies({q}.maxlen != 0, {q}.maxlen >= 1 and {q}.glen <= {q}.maxlen)",
            "forall_ref('SearchDataItem', lambda qo: {q}.gcnt[qo] >= 0)",
            "forall(0, {q}.glen, lambda qi: {q}.gcnt[{q}.gitems[qi]] >= 1)",
            # no entry is None: `insert` is only ever given an item (its pre-condition, an obligation at every call site)
            "forall(0, {q}.glen, lambda qi: {q}.gitems[qi] is not None)",
            # an item with a positive entry count has an entry (DEPQ's own .items bookkeeping)
            "forall_ref('SearchDataItem', lambda qo: implies({q}.gcnt[qo] >= 1, "
            "exists(0, {q}.glen, lambda qi: {q}.gitems[qi] is qo)))"]


DEPQ_OK = z3.Function("depq_ok", z3.ArraySort(IntS, IntS), z3.ArraySort(IntS, RealS), IntS, z3.ArraySort(IntS, IntS), IntS, BoolS)


def spec_depq_ok(engine, state, q):
    """Opaque object invariant of the ASSUMED DEPQ abstract state.  Carried as an uninterpreted predicate of the view
    (so preserving it across a frame is congruence); its meaning - DEPQ_FACTS - is supplied as an axiom instance for
    every view it is evaluated on (the facts are part of the assumed contract, never proof goals of iOpt code)."""
    vals = [engine.load(state, q, n) for n in ("gitems", "gkeys", "glen", "gcnt", "maxlen")]
    ok = DEPQ_OK(*[to_z3(v) for v in vals])
    facts = z3.And(*[engine.eval_spec(state, c.format(q="qq"), {"qq": q}) for c in DEPQ_FACTS])
    ax = z3.Implies(ok, facts)
    if not any(a.eq(ax) for a in engine.axioms):
        engine.axioms.append(ax)
    return ok


SPEC_FUNCS["depq_ok"] = spec_depq_ok


def depq_inv(q):
    return ["depq_ok(%s)" % q]


# ----------------------------------------------------------------------------- CharacteristicsQueue
BQ = "self._CharacteristicsQueue__baseQueue"


def cq_contracts():
    inv = depq_inv(BQ)
    mods = [BQ + ".gitems", BQ + ".gkeys", BQ + ".glen", BQ + ".gcnt"]
    cs = []
    cs.append(Contract(F_SD, "CharacteristicsQueue.Clear", params={}, result="none", modifies=[BQ + ".glen", BQ + ".gcnt"],
                       allocates=False, requires=[BQ + " is not None"], ensures=[BQ + ".glen == 0", BQ + ".gcnt == empty_seq('int')"] + inv,
                       doc="C19: Clear empties the queue"))
    cs.append(Contract(F_SD, "CharacteristicsQueue.Insert", params={"key": "real", "dataItem": "ref:SearchDataItem"},
                       result="none", modifies=mods, allocates=False, requires=inv, ghost_results={"gp": "int"},
                       ensures=inv + [
                           "0 <= gp and gp <= old({q}.glen)".format(q=BQ),
                           "forall(0, gp, lambda qi: old({q}.gkeys[qi]) >= key)".format(q=BQ),
                           "forall(gp, old({q}.glen), lambda qi: old({q}.gkeys[qi]) < key)".format(q=BQ),
                           "implies({q}.maxlen == 0 or old({q}.glen) < {q}.maxlen, {q}.glen == old({q}.glen) + 1 and "
                           "{i1} and {i2} and "
                           "{q}.gcnt == seq_store(old({q}.gcnt), dataItem, old({q}.gcnt[dataItem]) + 1))".format(
                               q=BQ, i1=ins_rel(BQ + ".gitems", "old(%s.gitems)" % BQ, "old(%s.glen)" % BQ, "gp", "dataItem"),
                               i2=ins_rel(BQ + ".gkeys", "old(%s.gkeys)" % BQ, "old(%s.glen)" % BQ, "gp", "key", "==")),
                           # C19 "a bounded queue retains the highest-priority entries": the retained entries are the first
                           # maxlen entries of the sorted sequence extended by the new entry
                           "implies({q}.maxlen != 0 and old({q}.glen) >= {q}.maxlen, {q}.glen == old({q}.glen) and "
                           "forall(0, gp, lambda ei: {q}.gitems[ei] is old({q}.gitems[ei]) and {q}.gkeys[ei] == old({q}.gkeys[ei])) and "
                           "implies(gp < {q}.glen, {q}.gitems[gp] is dataItem and {q}.gkeys[gp] == key) and "
                           "forall(gp + 1, {q}.glen, lambda ei: {q}.gitems[ei] is old({q}.gitems[ei - 1]) and "
                           "{q}.gkeys[ei] == old({q}.gkeys[ei - 1])))".format(q=BQ),
                       ],
                       doc="C19: the entry (dataItem, key) is queued at its priority rank; a full bounded queue keeps the "
                           "highest-priority entries"))
    cs.append(Contract(F_SD, "CharacteristicsQueue.GetBestItem", params={}, result="tuple(ref:SearchDataItem?,real)",
                       modifies=mods, allocates=False, requires=inv + [BQ + ".glen >= 1"],
                       ensures=inv + [
                           "result[0] is old({q}.gitems[0]) and result[1] == old({q}.gkeys[0])".format(q=BQ),
                           # maximality (C19): no queued entry had a larger priority
                           "forall(0, old({q}.glen), lambda qi: old({q}.gkeys[qi]) <= result[1])".format(q=BQ),
                           "{q}.glen == old({q}.glen) - 1".format(q=BQ),
                           "{q}.gcnt == seq_store(old({q}.gcnt), result[0], old({q}.gcnt[result[0]]) - 1)".format(q=BQ),
                           rem0_rel(BQ + ".gitems", "old(%s.gitems)" % BQ, "old(%s.glen)" % BQ) + " and " +
                           rem0_rel(BQ + ".gkeys", "old(%s.gkeys)" % BQ, "old(%s.glen)" % BQ, "==")],
                       doc="C19: returns (and removes) an entry of maximal priority, the earliest inserted among equals"))
    cs.append(Contract(F_SD, "CharacteristicsQueue.IsEmpty", params={}, result="bool", modifies=[], allocates=False,
                       requires=inv, ensures=["result == ({q}.glen == 0)".format(q=BQ)], doc="C19"))
    cs.append(Contract(F_SD, "CharacteristicsQueue.GetMaxLen", params={}, result="int", modifies=[], allocates=False,
                       requires=[BQ + " is not None"],
                       ensures=["result == {q}.maxlen".format(q=BQ)], doc="C19 (None encoded as 0)"))
    cs.append(Contract(F_SD, "CharacteristicsQueue.GetLen", params={}, result="int", modifies=[], allocates=False,
                       ensures=["result == {q}.glen".format(q=BQ)], doc="C19"))
    cs.append(Contract(F_SD, "CharacteristicsQueue.__init__", params={"maxlen": "int"}, result="none",
                       modifies=["obj(self)"],
                       requires=["maxlen >= 0"],
                       ensures=["fresh({q})".format(q=BQ), "{q}.glen == 0 and {q}.maxlen == maxlen".format(q=BQ)] + inv,
                       doc="owns a fresh, empty DEPQ with the requested bound"))
    return cs


# ----------------------------------------------------------------------------- SearchData: well-formedness
GQ = "self._RGlobalQueue._CharacteristicsQueue__baseQueue"
LQ = "self._SearchDataDualQueue__RLocalQueue._CharacteristicsQueue__baseQueue"

WF = [
    "self.gn >= 2",
    "self._SearchData__firstDataItem is self.gseq[0]",
    "self.gseq[0].GetLeft() is None and self.gseq[self.gn - 1].GetRight() is None",
    "forall(0, self.gn - 1, lambda k: self.gseq[k].GetRight() is self.gseq[k + 1] and "
    "self.gseq[k + 1].GetLeft() is self.gseq[k])",
    "forall(1, self.gn, lambda k: self.gseq[k].GetLeft() is self.gseq[k - 1] and "
    "self.gseq[k - 1].GetRight() is self.gseq[k])",
    "forall(0, self.gn, lambda k: self.gseq[k] is not None and self.gpos[self.gseq[k]] == k)",
    "forall(0, self.gn - 1, lambda k: self.gseq[k].GetX() <= self.gseq[k + 1].GetX())",
    "self._allTrials is not None and vlen(self._allTrials) == self.gn",
    "self._RGlobalQueue is not None and %s is not None" % GQ,
]
WF_NAMES = ["n>=2", "first=seq[0]", "ends-null", "links", "links-back", "positions", "sorted", "count", "queue-present"]


def member(x, sd="self"):
    return "({x} is not None and 0 <= {sd}.gpos[{x}] and {sd}.gpos[{x}] < {sd}.gn and {sd}.gseq[{sd}.gpos[{x}]] is {x})".format(x=x, sd=sd)


def sd_contracts(dual=False):
    cls = "SearchDataDualQueue" if dual else "SearchData"
    qinv = depq_inv(GQ) + (depq_inv(LQ) if dual else [])
    unb = ["%s.maxlen == 0" % GQ] + (["%s.maxlen == 0" % LQ, "self._SearchDataDualQueue__RLocalQueue is not None and "
                                       "%s is not None and %s != %s" % (LQ, LQ, GQ)] if dual else [])
    qmods = [GQ + ".gitems", GQ + ".gkeys", GQ + ".glen", GQ + ".gcnt"] + \
            ([LQ + ".gitems", LQ + ".gkeys", LQ + ".glen", LQ + ".gcnt"] if dual else [])
    cs = []
    # -- construction
    cs.append(Contract(F_SD, cls + ".__init__", params={"problem": "ref:Problem", "maxlen": "int"}, result="none",
                       modifies=["obj(self)"], requires=["maxlen >= 0"],
                       ghost_exit=["self.gn = 0", "self.gseq = empty_seq('SearchDataItem')", "self.gpos = empty_seq('int')"],
                       ensures=["self.gn == 0 and vlen(self._allTrials) == 0 and self._SearchData__firstDataItem is None",
                                "fresh(self._RGlobalQueue) and fresh(%s) and %s.glen == 0 and %s.maxlen == maxlen" % (GQ, GQ, GQ)] +
                               (["fresh(self._SearchDataDualQueue__RLocalQueue) and fresh(%s) and %s.glen == 0 and "
                                 "%s.maxlen == maxlen and %s != %s" % (LQ, LQ, LQ, LQ, GQ)] if dual else []),
                       doc="C19: a new container is empty (no items, empty queue%s)" % ("s" if dual else "")))
    # -- ClearQueue
    cs.append(Contract(F_SD, cls + ".ClearQueue", params={}, result="none",
                       modifies=[GQ + ".glen", GQ + ".gcnt"] + ([LQ + ".glen", LQ + ".gcnt"] if dual else []), allocates=False,
                       requires=["self._RGlobalQueue is not None and %s is not None" % GQ] + (unb[2:] if dual else []),
                       ensures=["%s.glen == 0 and %s.gcnt == empty_seq('int')" % (GQ, GQ)] +
                               (["%s.glen == 0 and %s.gcnt == empty_seq('int')" % (LQ, LQ)] if dual else []) + qinv,
                       doc="C19: ClearQueue empties the queue%s and nothing else" % ("s" if dual else "")))
    # -- InsertFirstDataItem
    cs.append(Contract(F_SD, cls + ".InsertFirstDataItem",
                       params={"leftDataItem": "ref:SearchDataItem", "rightDataItem": "ref:SearchDataItem"}, result="none",
                       modifies=["rightDataItem._SearchDataItem__leftPoint", "leftDataItem._SearchDataItem__rightPoint",
                                 "elems(self._allTrials)", "len_(self._allTrials)", "self._SearchData__firstDataItem", "self.gseq", "self.gn", "self.gpos"],
                       allocates=False,
                       requires=["self.gn == 0 and self._allTrials is not None and vlen(self._allTrials) == 0",
                                 "leftDataItem is not rightDataItem",
                                 "leftDataItem.GetLeft() is None and rightDataItem.GetRight() is None",
                                 "leftDataItem.GetX() <= rightDataItem.GetX()",
                                 "self._RGlobalQueue is not None and %s is not None" % GQ],
                       ghost_exit=["self.gn = 2",
                                   "self.gseq = seq_store(seq_store(self.gseq, 0, leftDataItem), 1, rightDataItem)",
                                   "self.gpos = seq_store(seq_store(self.gpos, leftDataItem, 0), rightDataItem, 1)"],
                       ensures=WF + ["self.gn == 2 and self.gseq[0] is leftDataItem and self.gseq[1] is rightDataItem"],
                       doc="C19: seeding yields the two-item ordered list [left, right] with consistent links"))
    # -- iteration protocol
    cs.append(Contract(F_SD, cls + ".__iter__", params={}, result="ref:" + cls, modifies=["self.curIter"], allocates=False,
                       requires=WF, ensures=["result is self", "self.curIter is self.gseq[0]"],
                       doc="C19: traversal starts at the first item (StopIteration from an unseeded container is excluded by WF)"))
    cs.append(Contract(F_SD, cls + ".__next__", params={}, result="ref:SearchDataItem", modifies=["self.curIter"],
                       allocates=False,
                       requires=WF + ["self.curIter is None or " + member("self.curIter")],
                       raises={"StopIteration": ["old(self.curIter) is None", "self.curIter is None"]},
                       ensures=["old(self.curIter) is not None", "result is old(self.curIter)",
                                "implies(self.gpos[result] + 1 < self.gn, self.curIter is self.gseq[self.gpos[result] + 1])",
                                "implies(self.gpos[result] + 1 >= self.gn, self.curIter is None)"],
                       doc="C19: traversal yields gseq[0], gseq[1], ... in order and then stops"))
    # -- lookup
    cs.append(Contract(F_SD, cls + ".FindDataItemByOneDimensionalPoint", params={"x": "real"},
                       result="ref:SearchDataItem?", modifies=["self.curIter"], allocates=False, requires=WF,
                       ghost_results={"gj": "int"},
                       ensures=["0 <= gj and gj <= self.gn",
                                "forall(0, gj, lambda k: self.gseq[k].GetX() <= x)",
                                "implies(result is not None, gj < self.gn and result is self.gseq[gj] and result.GetX() > x)",
                                "implies(result is None, gj == self.gn)"],
                       doc="C19: covering-interval lookup returns the first item strictly to the right of x (None if there is none)"))
    # -- GetCount / GetLastItem
    cs.append(Contract(F_SD, cls + ".GetCount", params={}, result="int", modifies=[], allocates=False,
                       requires=["self._allTrials is not None and vlen(self._allTrials) == self.gn"], ensures=["result == self.gn"],
                       doc="C19: count = number of inserted items"))
    cs.append(Contract(F_SD, cls + ".GetLastItem", params={}, result="ref:SearchDataItem?", modifies=[], allocates=False,
                       requires=["self._allTrials is not None and vlen(self._allTrials) >= 1"],
                       ensures=["result is self._allTrials[vlen(self._allTrials) - 1]"],
                       doc="the most recently appended item"))
    # -- InsertDataItem
    ins_mods = ["newDataItem._SearchDataItem__leftPoint", "newDataItem._SearchDataItem__rightPoint",
                "elems(self._allTrials)", "len_(self._allTrials)", "self.curIter", "self.gseq", "self.gn", "self.gpos"] + qmods
    common_req = WF + qinv + unb + ["not " + member("newDataItem"),
                                     "forall(0, self.gn, lambda k: self.gseq[k] is not newDataItem)"]
    hint_req = ["rightDataItem is not None", member("rightDataItem"), "self.gpos[rightDataItem] >= 1",
                "self.gseq[self.gpos[rightDataItem] - 1].GetX() <= newDataItem.GetX() and "
                "newDataItem.GetX() <= rightDataItem.GetX()"]
    nohint_req = ["rightDataItem is None",
                  "self.gseq[0].GetX() <= newDataItem.GetX() and newDataItem.GetX() < self.gseq[self.gn - 1].GetX()"]
    ins_ghost = ["gk = self.gpos[rightDataItem]",
                 "self.gpos = pos_after_insert(self.gpos, self.gseq, self.gn, gk, newDataItem)",
                 "self.gseq = seq_insert(self.gseq, gk, newDataItem)",
                 "self.gn = self.gn + 1"]
    view_post = ["1 <= gk and gk <= old(self.gn) - 1",
                 "self.gn == old(self.gn) + 1",
                 "self.gseq[gk] is newDataItem and self.gseq[gk + 1] is old(self.gseq[gk])",
                 "forall(0, gk, lambda k: self.gseq[k] is old(self.gseq[k]))",
                 "forall(gk + 1, self.gn, lambda k: self.gseq[k] is old(self.gseq[k - 1]))",
                 "forall(gk, old(self.gn), lambda k: self.gseq[k + 1] is old(self.gseq[k]))",
                 # the insertion log: the new item is appended, earlier entries are kept
                 "self._allTrials[vlen(self._allTrials) - 1] is newDataItem",
                 "forall(0, old(vlen(self._allTrials)), lambda k: self._allTrials[k] is old(self._allTrials[k]))",
                 # membership is preserved (positions of the items to the right move by one)
                 "forall(0, old(self.gn), lambda k: %s)" % member("old(self.gseq[k])")]

    def queue_post(q, attr, flag):
        # the new item is queued with its current characteristic; with a hint the right neighbour is queued again
        ent = "exists(0, %s.glen, lambda qi: %s.gitems[qi] is {it} and %s.gkeys[qi] == {it}.%s)" % (q, q, q, attr)
        cur = ("implies(forall(0, old(%s.glen), lambda qi: old(%s.gkeys[qi]) == old(%s.gitems[qi]).%s), "
               "forall(0, %s.glen, lambda qi: %s.gkeys[qi] == %s.gitems[qi].%s))" % (q, q, q, attr, q, q, q, attr))
        if not flag:
            return ["%s.glen == old(%s.glen) + 1" % (q, q),
                    "%s.gcnt == seq_store(old(%s.gcnt), newDataItem, old(%s.gcnt[newDataItem]) + 1)" % (q, q, q), cur]
        return ["%s.glen == old(%s.glen) + 2" % (q, q),
                "%s.gcnt[newDataItem] == old(%s.gcnt[newDataItem]) + 1 and "
                "%s.gcnt[rightDataItem] == old(%s.gcnt[rightDataItem]) + 1" % (q, q, q, q),
                "forall_ref('SearchDataItem', lambda qo: implies(qo is not newDataItem and qo is not rightDataItem, "
                "%s.gcnt[qo] == old(%s.gcnt[qo])))" % (q, q), cur]
    for flag, req, tag in ((True, hint_req, "hint"), (False, nohint_req, "nohint")):
        post = WF + qinv + view_post + queue_post(GQ, "globalR", flag) + (queue_post(LQ, "localR", flag) if dual else [])
        if flag:
            post.append("gk == old(self.gpos[rightDataItem])")
        else:
            post += ["self.gseq[gk + 1].GetX() > newDataItem.GetX()",
                     "forall(0, gk, lambda k: self.gseq[k].GetX() <= newDataItem.GetX())"]
        c = Contract(F_SD, cls + ".InsertDataItem",
                     params={"newDataItem": "ref:SearchDataItem", "rightDataItem": "ref:SearchDataItem?"}, result="none",
                     modifies=ins_mods + (["rightDataItem._SearchDataItem__leftPoint",
                                           "self.gseq[self.gpos[rightDataItem] - 1]._SearchDataItem__rightPoint"] if flag else
                                          ["allof(_SearchDataItem__leftPoint)", "allof(_SearchDataItem__rightPoint)"]),
                     allocates=False, requires=common_req + req, ghost_exit=ins_ghost, ghost_results={"gk": "int"},
                     ensures=post,
                     doc="C19 (%s): the item is spliced in at its place: traversal order, links, positions and count stay "
                         "consistent; queue entries are added" % tag)
        c.tag = tag
        cs.append(c)
    return cs


def refill_post(q, attr):
    """state of a queue right after a refill: exactly the items of the container, each with its current characteristic"""
    return ["%s.glen == self.gn" % q,
            "forall(0, %s.glen, lambda qi: %s and %s.gkeys[qi] == %s.gitems[qi].%s)" % (q, member("%s.gitems[qi]" % q), q, q, attr),
            "forall(0, self.gn, lambda k: %s.gcnt[self.gseq[k]] == 1)" % q]


def sd_queue_contracts(dual=False):
    """RefillQueue, GetDataItemWithMaxGlobalR (and the dual-queue variants)"""
    cls = "SearchDataDualQueue" if dual else "SearchData"
    qinv = depq_inv(GQ) + (depq_inv(LQ) if dual else [])
    unb = ["%s.maxlen == 0" % GQ] + (["%s.maxlen == 0" % LQ, "self._SearchDataDualQueue__RLocalQueue is not None and "
                                       "%s is not None and %s != %s" % (LQ, LQ, GQ)] if dual else [])
    qmods = [GQ + ".gitems", GQ + ".gkeys", GQ + ".glen", GQ + ".gcnt"] + \
            ([LQ + ".gitems", LQ + ".gkeys", LQ + ".glen", LQ + ".gcnt"] if dual else [])
    cs = []
    cs.append(Contract(F_SD, cls + ".RefillQueue", params={}, result="none", modifies=qmods + ["self.curIter"],
                       allocates=False, requires=WF + unb,
                       ensures=qinv + refill_post(GQ, "globalR") + (refill_post(LQ, "localR") if dual else []),
                       doc="C19: after a refill the queue holds exactly the items of the container, each once, with its "
                           "current characteristic"))
    if not dual:
        cs.append(Contract(F_SD, cls + ".GetDataItemWithMaxGlobalR", params={}, result="ref:SearchDataItem?",
                           modifies=qmods + ["self.curIter"], allocates=False, requires=WF + qinv + unb,
                           ensures=qinv + [
                               # non-empty queue: the first entry, whose queued characteristic is maximal
                               "implies(old(%s.glen) >= 1, old(%s.gcnt[result]) >= 1)" % (GQ, GQ),
                               "implies(old(%s.glen) >= 1, result is old(%s.gitems[0]) and %s.glen == old(%s.glen) - 1 and "
                               "forall(0, old(%s.glen), lambda qi: old(%s.gkeys[qi]) <= old(%s.gkeys[0])) and "
                               "%s and %s and "
                               "%s.gcnt == seq_store(old(%s.gcnt), result, old(%s.gcnt[result]) - 1))"
                               % ((GQ,) * 7 + (rem0_rel(GQ + ".gitems", "old(%s.gitems)" % GQ, "old(%s.glen)" % GQ),
                                              rem0_rel(GQ + ".gkeys", "old(%s.gkeys)" % GQ, "old(%s.glen)" % GQ, "==")) + (GQ,) * 3),
                               # empty queue: refilled first; the result is an item of maximal current characteristic
                               "implies(old(%s.glen) == 0, %s)" % (GQ, member("result")),
                               "implies(old(%s.glen) == 0, %s.glen == self.gn - 1)" % (GQ, GQ),
                               # stepping stones (lemmas) for the maximality claim
                               "implies(old(%s.glen) == 0, forall(0, %s.glen, lambda qi: %s.gkeys[qi] == %s.gitems[qi].globalR "
                               "and %s.gkeys[qi] <= result.globalR))" % ((GQ,) * 5),
                               "implies(old(%s.glen) == 0, forall(0, self.gn, lambda k: self.gseq[k] is result or "
                               "%s.gcnt[self.gseq[k]] >= 1))" % (GQ, GQ),
                               "implies(old(%s.glen) == 0, forall(0, self.gn, lambda k: self.gseq[k].globalR <= result.globalR))" % GQ,
                               "implies(old(%s.glen) == 0, forall(0, self.gn, lambda k: %s.gcnt[self.gseq[k]] == "
                               "(0 if self.gseq[k] is result else 1)))" % (GQ, GQ)],
                           chain=True,
                           doc="C19: a best-interval request returns (and removes) an entry whose queued characteristic is "
                               "maximal; an empty queue is refilled first"))
    else:
        cs.append(dual_best_contract(False))
        cs.append(dual_best_contract(True))
    return cs


def find_loop():
    return LoopSpec(ghost_before=["gj = 0"], ghost_body_end=["gj = gj + 1"],
                    invariant=["0 <= gj and gj <= self.gn",
                               "(gj < self.gn and self.curIter is self.gseq[gj]) or (gj == self.gn and self.curIter is None)",
                               "forall(0, gj, lambda k: self.gseq[k].GetX() <= x)"],
                    modifies=["self.curIter"], variant="self.gn - gj")


def refill_loop(dual=False):
    inv = ["0 <= gj and gj <= self.gn",
           "(gj < self.gn and self.curIter is self.gseq[gj]) or (gj == self.gn and self.curIter is None)"]
    for q, attr in ((GQ, "globalR"),) + (((LQ, "localR"),) if dual else ()):
        inv += depq_inv(q)
        inv += ["%s.glen == gj" % q,
                "forall(0, %s.glen, lambda qi: %s and %s.gkeys[qi] == %s.gitems[qi].%s)" % (q, member("%s.gitems[qi]" % q), q, q, attr),
                "forall(0, gj, lambda k: %s.gcnt[self.gseq[k]] == 1)" % q,
                "forall(gj, self.gn, lambda k: %s.gcnt[self.gseq[k]] == 0)" % q]
    qmods = [GQ + ".gitems", GQ + ".gkeys", GQ + ".glen", GQ + ".gcnt"] + \
            ([LQ + ".gitems", LQ + ".gkeys", LQ + ".glen", LQ + ".gcnt"] if dual else [])
    return LoopSpec(ghost_before=["gj = 0"], ghost_body_end=["gj = gj + 1"], invariant=inv,
                    modifies=qmods + ["self.curIter"], variant="self.gn - gj")


def loop_specs(cls, dual):
    return {(F_SD, cls + ".FindDataItemByOneDimensionalPoint", 0): find_loop(),
            (F_SD, cls + ".RefillQueue", 0): refill_loop(dual),
            (F_SD, "SearchData.FindDataItemByOneDimensionalPoint", 0): find_loop(),
            (F_SD, "SearchData.RefillQueue", 0): refill_loop(False),
            (F_SD, "SearchDataDualQueue.GetDataItemWithMaxGlobalR", 0): dual_best_loop(False),
            (F_SD, "SearchDataDualQueue.GetDataItemWithMaxLocalR", 0): dual_best_loop(True)}


# ----------------------------------------------------------------------------- dual-queue variant: best request with lazy invalidation
def qnn(q):
    return "forall(0, %s.glen, lambda qi: %s.gitems[qi] is not None)" % (q, q)


def dual_best_contract(local=False):
    """SearchDataDualQueue.GetDataItemWithMaxGlobalR / GetDataItemWithMaxLocalR: entries whose queued characteristic is no
    longer the item's current one are skipped (lazy invalidation); an exhausted queue is refilled."""
    q, oq = (LQ, GQ) if local else (GQ, LQ)
    attr = "localR" if local else "globalR"
    name = "GetDataItemWithMaxLocalR" if local else "GetDataItemWithMaxGlobalR"
    unb = ["%s.maxlen == 0" % GQ, "%s.maxlen == 0" % LQ,
           "self._SearchDataDualQueue__RLocalQueue is not None and %s is not None and %s != %s" % (LQ, LQ, GQ)]
    qmods = [GQ + ".gitems", GQ + ".gkeys", GQ + ".glen", GQ + ".gcnt", LQ + ".gitems", LQ + ".gkeys", LQ + ".glen", LQ + ".gcnt"]
    setup = ["g0len = %s.glen" % q, "g0items = %s.gitems" % q, "g0keys = %s.gkeys" % q,
             "g1len = %s.glen" % oq, "g1items = %s.gitems" % oq, "g1keys = %s.gkeys" % oq]
    return Contract(
        F_SD, "SearchDataDualQueue." + name, params={}, result="ref:SearchDataItem?", modifies=qmods + ["self.curIter"],
        allocates=False, setup=setup,
        requires=WF + depq_inv(GQ) + depq_inv(LQ) + unb + [qnn(GQ), qnn(LQ)],
        ghost_exit=["gkey = bestItem[1]"], ghost_results={"gkey": "real", "gj": "int", "grefilled": "bool"},
        ensures=depq_inv(GQ) + depq_inv(LQ) + [qnn(GQ), qnn(LQ),
                 "result is not None",
                 # the returned entry is current (C19: maximal among entries whose characteristic is still current)
                 "gkey == result.%s" % attr,
                 "implies(not grefilled, 0 <= gj and gj < g0len and result is g0items[gj] and gkey == g0keys[gj])",
                 "implies(not grefilled, forall(0, gj, lambda qi: g0keys[qi] != g0items[qi].%s))" % attr,
                 "implies(not grefilled, forall(gj, g0len, lambda qi: g0keys[qi] <= gkey))",
                 "implies(not grefilled, {q}.glen == g0len - gj - 1 and forall(0, {q}.glen, lambda qi: "
                 "{q}.gitems[qi] is g0items[qi + gj + 1] and {q}.gkeys[qi] == g0keys[qi + gj + 1]))".format(q=q),
                 "implies(not grefilled, {o}.glen == g1len and {o}.gitems == g1items and {o}.gkeys == g1keys)".format(o=oq),
                 "implies(grefilled, %s)" % member("result"),
                 "implies(grefilled, forall(0, self.gn, lambda k: self.gseq[k].%s <= result.%s))" % (attr, attr)],
        doc="C19 (dual queue): a best-interval request returns an entry whose characteristic is current and maximal among the "
            "current entries; stale entries are discarded; an exhausted queue is refilled from the items")


def dual_best_loop(local=False):
    q, oq = (LQ, GQ) if local else (GQ, LQ)
    attr = "localR" if local else "globalR"
    qmods = [GQ + ".gitems", GQ + ".gkeys", GQ + ".glen", GQ + ".gcnt", LQ + ".gitems", LQ + ".gkeys", LQ + ".glen", LQ + ".gcnt"]
    inv = depq_inv(GQ) + depq_inv(LQ) + [qnn(GQ), qnn(LQ), "bestItem[0] is not None",
        "implies(not grefilled, 0 <= gj and gj < g0len and bestItem[0] is g0items[gj] and bestItem[1] == g0keys[gj])",
        "implies(not grefilled, forall(0, gj, lambda qi: g0keys[qi] != g0items[qi].%s))" % attr,
        "implies(not grefilled, forall(gj, g0len, lambda qi: g0keys[qi] <= bestItem[1]))",
        "implies(not grefilled, {q}.glen == g0len - gj - 1 and forall(0, {q}.glen, lambda qi: "
        "{q}.gitems[qi] is g0items[qi + gj + 1] and {q}.gkeys[qi] == g0keys[qi + gj + 1]))".format(q=q),
        "implies(not grefilled, {o}.glen == g1len and {o}.gitems == g1items and {o}.gkeys == g1keys)".format(o=oq),
        # after a refill: stepping stones, then currency and maximality of the entry just taken
        "implies(grefilled, forall(0, {q}.glen, lambda qi: {q}.gkeys[qi] == {q}.gitems[qi].{a} and "
        "{q}.gkeys[qi] <= bestItem[0].{a}))".format(q=q, a=attr),
        "implies(grefilled, forall(0, self.gn, lambda k: self.gseq[k] is bestItem[0] or %s.gcnt[self.gseq[k]] >= 1))" % q,
        "implies(grefilled, bestItem[1] == bestItem[0].%s and %s)" % (attr, member("bestItem[0]")),
        "implies(grefilled, forall(0, self.gn, lambda k: self.gseq[k].%s <= bestItem[0].%s))" % (attr, attr)]
    return LoopSpec(ghost_before=["gj = 0", "grefilled = (g0len == 0)"],
                    ghost_body_start=["gemp = (%s.glen == 0)" % q],
                    ghost_body_end=["grefilled = grefilled or gemp", "gj = gj + 1"],
                    invariant=inv, modifies=qmods + ["self.curIter"],
                    variant="(0 if grefilled else self.gn + 1) + %s.glen" % q, chain=True)
