"""Sidecar schema (attribute name -> sort) and constructor contracts of the solver object graph
(iOpt/solver.py, solution.py, trial.py, solver_parametrs.py, method/*.py).  Specifications only."""
from pyvc.symexec import Contract, LoopSpec
from contracts.evolvent import SCHEMA as EVOLVENT_SCHEMA, SPEC_FUNCS as EV_SPEC

SCHEMA = dict(EVOLVENT_SCHEMA)
SCHEMA.update({
    # Solver
    "problem": "ref:Problem", "parameters": "ref:SolverParameters", "_Solver__listeners": "list:Listener",
    "searchData": "ref:SearchData", "evolvent": "ref:Evolvent", "task": "ref:OptimizationTask",
    "method": "ref:Method", "process": "ref:Process",
    # Problem
    "numberOfDisreteVariables": "int", "numberOfObjectives": "int", "numberOfConstraints": "int",
    "floatVariableNames": "list:str", "discreteVariableNames": "list:str", "discreteVariableValues": "list:str",
    "knownOptimum": "list:Trial", "dimension": "int",
    # SolverParameters
    "eps": "real", "r": "real", "itersLimit": "int", "epsR": "real", "refineSolution": "bool", "startPoint": "ref:Point",
    # Solution
    "bestTrials": "list:Trial", "numberOfGlobalTrials": "int", "numberOfLocalTrials": "int", "solvingTime": "real",
    "solutionAccuracy": "real",
    # Trial / Point / FunctionValue
    "point": "ref:Point", "functionValues": "list:FunctionValue", "floatVariables": "vec:real",
    "discreteVariables": "list:str", "type": "any", "functionID": "str", "value": "real",
    # SearchDataItem
    "_SearchDataItem__x": "real", "_SearchDataItem__discreteValueIndex": "int", "_SearchDataItem__index": "int",
    "_SearchDataItem__z": "real", "_SearchDataItem__leftPoint": "ref:SearchDataItem",
    "_SearchDataItem__rightPoint": "ref:SearchDataItem", "delta": "real", "globalR": "real", "localR": "real",
    "iterationNumber": "int",
    # queues / SearchData
    "_CharacteristicsQueue__baseQueue": "ref:DEPQ", "solution": "ref:Solution", "_allTrials": "list:SearchDataItem",
    "_RGlobalQueue": "ref:CharacteristicsQueue", "_SearchData__firstDataItem": "ref:SearchDataItem",
    "curIter": "ref:SearchDataItem", "_SearchDataDualQueue__RLocalQueue": "ref:CharacteristicsQueue",
    # Method
    "stop": "bool", "recalc": "bool", "iterationsCount": "int", "best": "ref:SearchDataItem", "M": "list:real",
    "Z": "list:real",
    # OptimizationTask
    "perm": "vec:int",
    # Process
    "_Process__listeners": "list:Listener", "_Process__first_iteration": "bool", "localMethodIterationCount": "real",
    # DEPQ (external, assumed contract): ghost view
    "maxlen": "int",
})

SPEC_FUNCS = dict(EV_SPEC)

F_TRIAL = "iOpt/trial.py"
F_SOL = "iOpt/solution.py"
F_SD = "iOpt/method/search_data.py"
F_TASK = "iOpt/method/optim_task.py"
F_METHOD = "iOpt/method/method.py"
F_PROC = "iOpt/method/process.py"
F_SOLVER = "iOpt/solver.py"
F_PARAMS = "iOpt/solver_parametrs.py"


def function_value_init():
    return Contract(F_TRIAL, "FunctionValue.__init__", params={"type": "any", "functionID": "str"}, result="none",
                    modifies=["obj(self)"], allocates=False,
                    ensures=["self.value == 0", "self.type == type", "self.functionID == functionID"],
                    doc="a new value holder holds 0.0")


def point_init():
    return Contract(F_TRIAL, "Point.__init__", params={"floatVariables": "vec:real?", "discreteVariables": "list:str?"},
                    result="none", modifies=["obj(self)"], allocates=False,
                    ensures=["self.floatVariables is floatVariables", "self.discreteVariables is discreteVariables"],
                    doc="stores the two vectors it was given (no copy)")


def trial_init():
    return Contract(F_TRIAL, "Trial.__init__", params={"point": "ref:Point?", "functionValues": "list:FunctionValue?"},
                    result="none", modifies=["obj(self)"], allocates=False,
                    ensures=["self.point is point", "self.functionValues is functionValues"],
                    doc="stores point and value list (no copy)")


def solution_init():
    return Contract(F_SOL, "Solution.__init__",
                    params={"problem": "ref:Problem", "bestTrials": "list:Trial?", "numberOfGlobalTrials": "int",
                            "numberOfLocalTrials": "int", "solvingTime": "real", "solutionAccuracy": "real"},
                    result="none", modifies=["obj(self)"],
                    ensures=["self.problem is problem",
                             "implies(bestTrials is None, fresh(self.bestTrials) and vlen(self.bestTrials) == 1 and "
                             "fresh(self.bestTrials[0]))",
                             "implies(bestTrials is not None, self.bestTrials is bestTrials)",
                             "self.numberOfGlobalTrials == numberOfGlobalTrials and self.numberOfLocalTrials == "
                             "numberOfLocalTrials and self.solvingTime == solvingTime and self.solutionAccuracy == "
                             "solutionAccuracy"],
                    doc="C12: without an explicit list every Solution owns a fresh bestTrials list and placeholder Trial")


def search_data_item_init():
    return Contract(F_SD, "SearchDataItem.__init__",
                    params={"y": "ref:Point", "x": "real", "functionValues": "list:FunctionValue?",
                            "discreteValueIndex": "int"},
                    result="none", modifies=["obj(self)"],
                    ensures=["self.point is y", "self.GetX() == x", "self.GetIndex() == -2",
                             "self.GetLeft() is None and self.GetRight() is None",
                             "self.GetZ() == FMAX()",
                             "self.delta == -1 and self.globalR == -1 and self.localR == -1 and self.iterationNumber == -1",
                             "self.GetDiscreteValueIndex() == discreteValueIndex",
                             "implies(functionValues is None, fresh(self.functionValues) and vlen(self.functionValues) == 1 "
                             "and fresh(self.functionValues[0]) and self.functionValues[0].value == 0)",
                             "implies(functionValues is not None, self.functionValues is functionValues)"],
                    doc="C04/C12: without an explicit list every item owns a fresh value holder")


def characteristics_queue_init():
    return Contract(F_SD, "CharacteristicsQueue.__init__", params={"maxlen": "int?"}, result="none",
                    modifies=["obj(self)"],
                    ensures=["fresh(self._CharacteristicsQueue__baseQueue)"],
                    doc="owns a fresh DEPQ (assumed contract of depq.DEPQ: constructor returns a new empty queue)")


def search_data_init():
    return Contract(F_SD, "SearchData.__init__", params={"problem": "ref:Problem", "maxlen": "int?"}, result="none",
                    modifies=["obj(self)"],
                    ensures=["fresh(self.solution) and fresh(self._allTrials) and fresh(self._RGlobalQueue)",
                             "vlen(self._allTrials) == 0", "self._SearchData__firstDataItem is None",
                             "self.solution.problem is problem",
                             "fresh(self.solution.bestTrials) and vlen(self.solution.bestTrials) == 1 and "
                             "fresh(self.solution.bestTrials[0])",
                             "self.solution.numberOfGlobalTrials == 0 and self.solution.numberOfLocalTrials == 0",
                             "fresh(self._RGlobalQueue._CharacteristicsQueue__baseQueue)"],
                    doc="C12: a SearchData owns a fresh Solution (with its own bestTrials list), trial list and queue")


def optimization_task_init():
    return Contract(F_TASK, "OptimizationTask.__init__", params={"problem": "ref:Problem", "perm": "vec:int?"},
                    result="none", modifies=["obj(self)"],
                    setup=["problem.numberOfObjectives = 1", "problem.numberOfConstraints = 0"],
                    requires=["problem.numberOfObjectives == 1 and problem.numberOfConstraints == 0"],
                    ensures=["self.problem is problem",
                             "implies(perm is None, fresh(self.perm) and vlen(self.perm) == 1 and self.perm[0] == 0)",
                             "implies(perm is not None, self.perm is perm)"],
                    doc="identity permutation of the (single) function; configuration: 1 objective, 0 constraints")


def method_init():
    return Contract(F_METHOD, "Method.__init__",
                    params={"parameters": "ref:SolverParameters", "task": "ref:OptimizationTask", "evolvent": "ref:Evolvent",
                            "searchData": "ref:SearchData"},
                    result="none", modifies=["obj(self)", "searchData.solution.solutionAccuracy"],
                    setup=["task.problem.numberOfObjectives = 1", "task.problem.numberOfConstraints = 0"],
                    requires=["task.problem is not None",
                              "task.problem.numberOfObjectives == 1 and task.problem.numberOfConstraints == 0",
                              "searchData is not None and searchData.solution is not None"],
                    ensures=["self.stop == False and self.recalc == True and self.iterationsCount == 0 and self.best is None",
                             "self.parameters is parameters and self.task is task and self.evolvent is evolvent and "
                             "self.searchData is searchData",
                             "fresh(self.M) and fresh(self.Z) and self.M is not self.Z and vlen(self.M) == 1 and "
                             "vlen(self.Z) == 1 and self.M[0] == 1 and self.Z[0] == PINF()",
                             "self.dimension == task.problem.numberOfFloatVariables",
                             "searchData.solution.solutionAccuracy == PINF()"],
                    doc="initial method state: M=[1], Z=[+inf], accuracy +inf, recalc set")


def process_init():
    return Contract(F_PROC, "Process.__init__",
                    params={"parameters": "ref:SolverParameters", "task": "ref:OptimizationTask", "evolvent": "ref:Evolvent",
                            "searchData": "ref:SearchData", "method": "ref:Method", "listeners": "list:Listener"},
                    result="none", modifies=["obj(self)"], allocates=False,
                    ensures=["self.parameters is parameters and self.task is task and self.evolvent is evolvent and "
                             "self.searchData is searchData and self.method is method",
                             "self._Process__listeners is listeners", "self._Process__first_iteration == True",
                             "self.localMethodIterationCount == 0"],
                    doc="stores its collaborators; the first-iteration flag is set")


def evolvent_init_sym():
    """Evolvent.__init__ for a symbolic dimension: only what C12/C20 need (the N-specific contract is in evolvent.py)."""
    return Contract("iOpt/evolvent/evolvent.py", "Evolvent.__init__",
                    params={"lowerBoundOfFloatVariables": "vec:real", "upperBoundOfFloatVariables": "vec:real",
                            "numberOfFloatVariables": "int", "evolventDensity": "int"},
                    result="none", modifies=["obj(self)"],
                    requires=["numberOfFloatVariables >= 1"],
                    ensures=["self.numberOfFloatVariables == numberOfFloatVariables",
                             "self.evolventDensity == evolventDensity",
                             "fresh(self.yValues) and fresh(self.lowerBoundOfFloatVariables) and "
                             "fresh(self.upperBoundOfFloatVariables)",
                             "self.yValues is not self.lowerBoundOfFloatVariables and self.yValues is not "
                             "self.upperBoundOfFloatVariables and self.lowerBoundOfFloatVariables is not "
                             "self.upperBoundOfFloatVariables",
                             "vlen(self.lowerBoundOfFloatVariables) == vlen(lowerBoundOfFloatVariables) and "
                             "vlen(self.upperBoundOfFloatVariables) == vlen(upperBoundOfFloatVariables)",
                             "forall(0, vlen(lowerBoundOfFloatVariables), lambda i: self.lowerBoundOfFloatVariables[i] == "
                             "lowerBoundOfFloatVariables[i])",
                             "forall(0, vlen(upperBoundOfFloatVariables), lambda i: self.upperBoundOfFloatVariables[i] == "
                             "upperBoundOfFloatVariables[i])"],
                    doc="C20: the configured density and dimension are stored; the bounds are owned copies")


def evolvent_init_loop():
    return LoopSpec(invariant=["self.numberOfFloatVariables == numberOfFloatVariables",
                               "self.evolventDensity == evolventDensity",
                               "self.yValues is old(self.yValues) and self.lowerBoundOfFloatVariables is "
                               "old(self.lowerBoundOfFloatVariables) and self.upperBoundOfFloatVariables is "
                               "old(self.upperBoundOfFloatVariables)", "0 <= i"],
                    modifies=["self.nexpExtended"], variant="self.numberOfFloatVariables - i")


def solver_init():
    return Contract(F_SOLVER, "Solver.__init__", params={"problem": "ref:Problem", "parameters": "ref:SolverParameters"},
                    result="none", modifies=["obj(self)"],
                    setup=["problem.numberOfObjectives = 1", "problem.numberOfConstraints = 0"],
                    requires=["problem.numberOfObjectives == 1 and problem.numberOfConstraints == 0",
                              "problem.numberOfFloatVariables >= 1",
                              "problem.lowerBoundOfFloatVariables is not None and problem.upperBoundOfFloatVariables is not None"],
                    ensures=[
                        # C20
                        "self.evolvent.evolventDensity == parameters.evolventDensity",
                        "self.evolvent.numberOfFloatVariables == problem.numberOfFloatVariables",
                        "forall(0, vlen(problem.lowerBoundOfFloatVariables), lambda i: "
                        "self.evolvent.lowerBoundOfFloatVariables[i] == problem.lowerBoundOfFloatVariables[i])",
                        "forall(0, vlen(problem.upperBoundOfFloatVariables), lambda i: "
                        "self.evolvent.upperBoundOfFloatVariables[i] == problem.upperBoundOfFloatVariables[i])",
                        # wiring: one evolvent / search data / task shared by method and process of THIS solver
                        "self.method.evolvent is self.evolvent and self.process.evolvent is self.evolvent",
                        "self.method.searchData is self.searchData and self.process.searchData is self.searchData",
                        "self.method.task is self.task and self.process.task is self.task and self.process.method is self.method",
                        "self.task.problem is problem and self.problem is problem",
                        "self.method.parameters is parameters and self.process.parameters is parameters and self.parameters is parameters",
                        "self.process._Process__listeners is self._Solver__listeners",
                        # C12: every member of the solver's footprint is fresh
                        "fresh(self.searchData) and fresh(self.evolvent) and fresh(self.task) and fresh(self.method) and "
                        "fresh(self.process) and fresh(self._Solver__listeners)",
                        "fresh(self.searchData.solution) and fresh(self.searchData._allTrials) and "
                        "fresh(self.searchData._RGlobalQueue) and fresh(self.searchData.solution.bestTrials) and "
                        "fresh(self.searchData.solution.bestTrials[0])",
                        "fresh(self.searchData._RGlobalQueue._CharacteristicsQueue__baseQueue)",
                        "fresh(self.evolvent.yValues) and fresh(self.evolvent.lowerBoundOfFloatVariables) and "
                        "fresh(self.evolvent.upperBoundOfFloatVariables)",
                        "fresh(self.method.M) and fresh(self.method.Z) and fresh(self.task.perm)",
                        "vlen(self._Solver__listeners) == 0",
                    ],
                    doc="C20 + C12: density honoured, collaborators wired to this solver, whole footprint freshly allocated")


CONSTRUCTORS = [function_value_init, point_init, trial_init, solution_init, search_data_item_init,
                characteristics_queue_init, search_data_init, optimization_task_init, method_init, process_init,
                evolvent_init_sym]
