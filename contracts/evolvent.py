"""Sidecar contracts for iOpt/evolvent/evolvent.py.  Nothing here restates the code: only specifications
(pre/post-conditions, loop invariants, ghost code, spec functions)."""
import z3
from fractions import Fraction
from pyvc.sym import *
from pyvc.symexec import Contract, LoopSpec

FILE = "iOpt/evolvent/evolvent.py"

SCHEMA = {
    "numberOfFloatVariables": "int",
    "lowerBoundOfFloatVariables": "vec:real",
    "upperBoundOfFloatVariables": "vec:real",
    "evolventDensity": "int",
    "nexpValue": "int",
    "nexpExtended": "real",
    "yValues": "vec:real",
}

NS = [2, 3, 4, 5]


# ----------------------------------------------------------------------------- spec function node_spec
def node_table(N):
    """Spec of the Strongin-Sergeyev node rule in terms of the bits of the digit k (MSB first):
    u = reflected Gray code signs, l = position of the lowest bit-change run, v = u with two sign flips.
    Returns {k: (l, u, v)}."""
    D = 2 ** N
    tab = {}
    for k in range(D):
        bits = [(k >> (N - 1 - i)) & 1 for i in range(N)]
        if k == 0:
            tab[k] = (N - 1, [-1] * N, [-1] * N)
            continue
        if k == D - 1:
            u = [1] + [-1] * (N - 1)
            v = list(u)
            v[N - 1] = 1
            tab[k] = (N - 1, u, v)
            continue
        u = []
        prev = 0
        for i in range(N):
            u.append(1 if bits[i] != prev else -1)
            prev = bits[i]
        v = list(u)
        l, iq = 0, 1
        for i in range(N - 1):
            low = bits[i + 1:]
            if bits[i] == 1 and not any(low):
                l, iq = i, -1
            elif bits[i] == 0 and all(low):
                l, iq = i, 1
        v[l] = v[l] * iq
        v[N - 1] = -v[N - 1]
        tab[k] = (l, u, v)
    return tab


def spec_node(engine, state, N, iis, l, u, v):
    """node_spec(N, iis, l, u, v): (l, u[0..N-1], v[0..N-1]) is the table row of digit iis."""
    N = concrete(N)
    tab = node_table(N)
    ziis = to_z3(iis, RealS)
    alts = []
    for k, (lk, uk, vk) in tab.items():
        conj = [ziis == k, to_z3(l, IntS) == lk]
        for i in range(N):
            conj.append(to_z3(engine.vec_get(state, u, i), IntS) == uk[i])
            conj.append(to_z3(engine.vec_get(state, v, i), IntS) == vk[i])
        alts.append(z3.And(*conj))
    return z3.Or(*alts)


def spec_isint(engine, state, x):
    x = to_z3(x)
    if z3.is_int(x):
        return True
    return z3.ToReal(z3.ToInt(x)) == x


def spec_vlen(engine, state, v):
    return engine.vec_len(state, v)


def spec_implies(engine, state, a, b):
    return zimplies(engine.truth(a), engine.truth(b))


def spec_fresh(engine, state, x):
    """fresh(x): x was allocated after the entry of the function under verification / after the call mark"""
    mark = state.env.get("$mark", engine.alloc0)
    upper = state.env.get("$upper")
    if upper is not None:          # assumed at a call site: the callee's allocations lie between the two marks
        return z3.And(x.e >= mark, x.e < upper)
    return x.e >= mark


SPEC_FUNCS = {"node_spec": spec_node, "isint": spec_isint, "vlen": spec_vlen, "implies": spec_implies,
              "fresh": spec_fresh}


def setup_N(N, m=None):
    s = ["self.numberOfFloatVariables = %d" % N, "self.nexpExtended = %d.0" % (2 ** N)]
    if m is not None:
        s.append("self.evolventDensity = %d" % m)
    return s


def calculate_node(N):
    return Contract(
        FILE, "Evolvent.__CalculateNode",
        params={"iis": "real", "n": "const:%d" % N, "u": "vec:int", "v": "vec:int"},
        result="int",
        setup=setup_N(N),
        requires=["isint(iis)", "0 <= iis", "iis <= %d" % (2 ** N - 1), "u is not v",
                  "vlen(u) == %d" % N, "vlen(v) == %d" % N, "n == %d" % N,
                  "self.nexpExtended == %d" % (2 ** N)],
        modifies=["elems(u)", "elems(v)"],
        ensures=["node_spec(%d, iis, result, u, v)" % N],
        cases=["iis == %d" % k for k in range(2 ** N)],
        doc="strongest post-condition: (l, u, v) is the node-table row of the digit",
    )


# ----------------------------------------------------------------------------- spec functions for powers
IPOW = z3.Function("ipow", IntS, IntS, RealS)


def spec_ipow(engine, state, b, e):
    """ipow(b, e) = b**e for integers b >= 1, e >= 0: uninterpreted, with its defining equations instantiated
    at the arguments that occur in specifications (e, e-1, e+1)."""
    zb, ze = to_z3(b, IntS), to_z3(e, IntS)
    t = IPOW(zb, ze)
    key = (zb.get_id(), ze.get_id())
    done = engine.__dict__.setdefault("_ipow_inst", set())
    if key not in done:
        done.add(key)
        rb = z3.ToReal(zb)
        engine.axioms.append(z3.And(
            IPOW(zb, z3.IntVal(0)) == 1,
            z3.Implies(ze >= 1, t == rb * IPOW(zb, ze - 1)),
            z3.Implies(ze >= 0, IPOW(zb, ze + 1) == rb * t),
            z3.Implies(z3.And(ze >= 0, zb >= 1), t >= 1),
            z3.Implies(z3.And(ze >= 0, zb >= 1), IPOW(zb, ze + 1) >= 1),
        ))
    return t


def spec_isclose(engine, state, a, b):
    return isclose(a, b)


def spec_floor(engine, state, x):
    return z3.ToInt(to_z3(x, RealS))


def spec_pinf(engine, state):
    return PINF


def spec_ninf(engine, state):
    return NINF


def spec_fmax(engine, state):
    return FMAX


def spec_finite(engine, state, x):
    x = to_z3(x, RealS)
    return z3.And(x > NINF, x < PINF)


SPEC_FUNCS.update({"ipow": spec_ipow, "isclose": spec_isclose, "floor": spec_floor, "PINF": spec_pinf, "NINF": spec_ninf,
                   "FMAX": spec_fmax, "finite": spec_finite})


# ----------------------------------------------------------------------------- __GetYonX, N >= 2
def getyonx_loop(N):
    """Loop contract of the density loop `for j in range(0, self.evolventDensity)` (unbounded in m).
    Ghost state: gP = 2^j, gW = D^j, gidx = number formed by the first j base-D digits of x,
    gk_i = index of the level-j cell along axis i, gc_i = 2*gk_i + 1 - gP (so that y_i = gc_i * r)."""
    D = 2 ** N
    before = ["gP = 1.0", "gW = 1.0", "gidx = 0"] + ["gc%d = 0.0" % i for i in range(N)] + ["gk%d = 0" % i for i in range(N)]
    end = ["gP = 2 * gP", "gW = %d * gW" % D, "gidx = %d * gidx + floor(iis)" % D] + \
          ["gc%d = 2 * gc%d + iu[%d]" % (i, i, i) for i in range(N)] + \
          ["gk%d = 2 * gk%d + (iu[%d] + 1) // 2" % (i, i, i) for i in range(N)]
    inv = [
        "0 <= it and it < %d" % N,
        "forall(0, %d, lambda i: iw[i] == 1 or iw[i] == -1)" % N,
        "vlen(iu) == %d and vlen(iv) == %d and vlen(iw) == %d and vlen(self.yValues) == %d" % (N, N, N, N),
        "gP >= 1 and r * gP == 0.5 and gP == ipow(2, j)",
        "gW >= 1 and gW == ipow(%d, j)" % D,
        "0 <= gidx and gidx <= gW - 1",
        # property-level digit invariant (C07): gidx = floor(x * D^j) for x < 1, the last index for x = 1
        "implies(_x < 1, 0 <= d and d < 1 and _x * gW == gidx + d)",
        "implies(_x == 1, gidx == gW - 1)",
        "0 <= j and j <= self.evolventDensity",
        "self.yValues is not iu and self.yValues is not iv and self.yValues is not iw and iu is not iv "
        "and iu is not iw and iv is not iw and fresh(self.yValues) and fresh(iu) and fresh(iv) and fresh(iw)",
        "self.numberOfFloatVariables == %d and self.nexpExtended == %d" % (N, D),
    ]
    for i in range(N):
        inv.append("self.yValues[%d] == gc%d * r and gc%d == 2 * gk%d + 1 - gP and 0 <= gk%d and gk%d <= gP - 1"
                   % (i, i, i, i, i, i))
    return LoopSpec(invariant=inv,
                    modifies=["elems(self.yValues)", "elems(iu)", "elems(iv)", "elems(iw)"],
                    variant="self.evolventDensity - j",
                    ghost_before=before, ghost_body_end=end)


def getyonx(N):
    D = 2 ** N
    ens = ["fresh(result) and fresh(self.yValues) and result is not self.yValues",
           "vlen(result) == %d and vlen(self.yValues) == %d" % (N, N),
           "implies(_x < 1, gidx == floor(_x * ipow(%d, self.evolventDensity)))" % D,
           "implies(_x == 1, gidx == ipow(%d, self.evolventDensity) - 1)" % D,
           "0 <= gidx and gidx <= ipow(%d, self.evolventDensity) - 1" % D]
    for i in range(N):
        ens.append("0 <= gk%d and gk%d <= ipow(2, self.evolventDensity) - 1" % (i, i))
        ens.append("result[%d] * ipow(2, self.evolventDensity) == gk%d + 0.5 - 0.5 * ipow(2, self.evolventDensity)" % (i, i))
        ens.append("self.yValues[%d] == result[%d]" % (i, i))
    gr = {"gidx": "int"}
    for i in range(N):
        gr["gk%d" % i] = "int"
    return Contract(
        FILE, "Evolvent.__GetYonX",
        params={"_x": "real"}, result="vec:real",
        setup=setup_N(N),
        requires=["0 <= _x", "_x <= 1", "self.evolventDensity >= 1",
                  "self.numberOfFloatVariables == %d" % N, "self.nexpExtended == %d" % D],
        modifies=["self.yValues"],
        ensures=ens, ghost_results=gr,
        doc="image in the unit cube: centre (gk_i + 1/2)/2^m - 1/2 of the grid cell gk; gidx = subinterval number",
    )


# ----------------------------------------------------------------------------- remaining single-run contracts
def transform_p2d(N):
    ens = ["self.yValues[%d] == old(self.yValues[%d]) * (self.upperBoundOfFloatVariables[%d] - "
           "self.lowerBoundOfFloatVariables[%d]) + (self.upperBoundOfFloatVariables[%d] + "
           "self.lowerBoundOfFloatVariables[%d]) / 2" % ((i,) * 6) for i in range(N)]
    return Contract(FILE, "Evolvent.__TransformP2D", params={}, result="none",
                    setup=setup_N(N),
                    requires=["self.numberOfFloatVariables == %d" % N, "vlen(self.yValues) == %d" % N,
                              "self.yValues is not self.upperBoundOfFloatVariables",
                              "self.yValues is not self.lowerBoundOfFloatVariables"],
                    modifies=["elems(self.yValues)"], ensures=ens, allocates=False,
                    doc="affine cube-to-box map, coordinate-wise")


def transform_d2p(N):
    ens = ["self.yValues[%d] * (self.upperBoundOfFloatVariables[%d] - self.lowerBoundOfFloatVariables[%d]) == "
           "old(self.yValues[%d]) - (self.upperBoundOfFloatVariables[%d] + self.lowerBoundOfFloatVariables[%d]) / 2"
           % ((i,) * 6) for i in range(N)]
    return Contract(FILE, "Evolvent.__TransformD2P", params={}, result="none",
                    setup=setup_N(N),
                    requires=["self.numberOfFloatVariables == %d" % N, "vlen(self.yValues) == %d" % N,
                              "self.yValues is not self.upperBoundOfFloatVariables",
                              "self.yValues is not self.lowerBoundOfFloatVariables"] +
                             ["self.lowerBoundOfFloatVariables[%d] < self.upperBoundOfFloatVariables[%d]" % (i, i)
                              for i in range(N)],
                    modifies=["elems(self.yValues)"], ensures=ens, allocates=False,
                    doc="affine box-to-cube map, coordinate-wise")


BOX_REQ = lambda N: ["self.lowerBoundOfFloatVariables[%d] < self.upperBoundOfFloatVariables[%d]" % (i, i) for i in range(N)] + \
    ["vlen(self.lowerBoundOfFloatVariables) == %d and vlen(self.upperBoundOfFloatVariables) == %d" % (N, N),
     "self.lowerBoundOfFloatVariables is not self.upperBoundOfFloatVariables",
     "self.yValues is not self.lowerBoundOfFloatVariables and self.yValues is not self.upperBoundOfFloatVariables"]


def get_image(N):
    """C07 obligation 1 at the API: the image is the centre of grid cell gk of the box and lies strictly inside it;
    gidx is the number of the subinterval of x (property-level: floor(x*D^m), last one for x = 1)."""
    D = 2 ** N
    P = "ipow(2, self.evolventDensity)"
    ens = ["fresh(result) and vlen(result) == %d" % N,
           "implies(_x < 1, gidx == floor(_x * ipow(%d, self.evolventDensity)))" % D if False else
           "implies(x < 1, gidx == floor(x * ipow(%d, self.evolventDensity)))" % D,
           "implies(x == 1, gidx == ipow(%d, self.evolventDensity) - 1)" % D,
           "old(self.lowerBoundOfFloatVariables) is self.lowerBoundOfFloatVariables and "
           "old(self.upperBoundOfFloatVariables) is self.upperBoundOfFloatVariables"]
    for i in range(N):
        ens.append("0 <= gk%d and gk%d <= %s - 1" % (i, i, P))
        ens.append("result[%d] * %s == self.lowerBoundOfFloatVariables[%d] * %s + (gk%d + 0.5) * "
                   "(self.upperBoundOfFloatVariables[%d] - self.lowerBoundOfFloatVariables[%d])" % (i, P, i, P, i, i, i))
        ens.append("self.lowerBoundOfFloatVariables[%d] < result[%d] and result[%d] < self.upperBoundOfFloatVariables[%d]"
                   % (i, i, i, i))
        ens.append("old(self.lowerBoundOfFloatVariables[%d]) == self.lowerBoundOfFloatVariables[%d] and "
                   "old(self.upperBoundOfFloatVariables[%d]) == self.upperBoundOfFloatVariables[%d]" % (i, i, i, i))
    gr = {"gidx": "int"}
    for i in range(N):
        gr["gk%d" % i] = "int"
    return Contract(FILE, "Evolvent.GetImage", params={"x": "real"}, result="vec:real",
                    setup=setup_N(N),
                    requires=["0 <= x", "x <= 1", "self.evolventDensity >= 1",
                              "self.numberOfFloatVariables == %d" % N, "self.nexpExtended == %d" % D,
                              "vlen(self.yValues) == %d" % N] + BOX_REQ(N),
                    modifies=["self.yValues"], ensures=ens, ghost_results=gr,
                    doc="image = centre of cell gk of the 2^m grid on the box, strictly inside the box")


def get_image_1():
    """N = 1: the image is the exact affine map (C09 last sentence); in place on the owned vector."""
    return Contract(FILE, "Evolvent.GetImage", params={"x": "real"}, result="vec:real",
                    setup=["self.numberOfFloatVariables = 1", "self.nexpExtended = 2.0"],
                    requires=["0 <= x", "x <= 1", "self.numberOfFloatVariables == 1", "vlen(self.yValues) == 1"] + BOX_REQ(1),
                    modifies=["elems(self.yValues)"],
                    ensures=["fresh(result) and vlen(result) == 1",
                             "result is not self.yValues and self.yValues is old(self.yValues)",
                             "result[0] == self.lowerBoundOfFloatVariables[0] + x * (self.upperBoundOfFloatVariables[0]"
                             " - self.lowerBoundOfFloatVariables[0])",
                             "self.lowerBoundOfFloatVariables[0] <= result[0] and result[0] <= self.upperBoundOfFloatVariables[0]",
                             "implies(x == 1, result[0] == self.upperBoundOfFloatVariables[0])",
                             "old(self.lowerBoundOfFloatVariables[0]) == self.lowerBoundOfFloatVariables[0] and "
                             "old(self.upperBoundOfFloatVariables[0]) == self.upperBoundOfFloatVariables[0]"],
                    doc="N = 1: affine map of [0,1] onto the segment")


def evolvent_init(N):
    D = 2 ** N
    return Contract(FILE, "Evolvent.__init__",
                    params={"lowerBoundOfFloatVariables": "vec:real", "upperBoundOfFloatVariables": "vec:real",
                            "numberOfFloatVariables": "const:%d" % N, "evolventDensity": "int"},
                    result="none",
                    requires=["vlen(lowerBoundOfFloatVariables) == %d" % N, "vlen(upperBoundOfFloatVariables) == %d" % N],
                    modifies=["self.numberOfFloatVariables", "self.lowerBoundOfFloatVariables",
                              "self.upperBoundOfFloatVariables", "self.evolventDensity", "self.nexpValue",
                              "self.nexpExtended", "self.yValues"],
                    ensures=["self.numberOfFloatVariables == %d" % N, "self.nexpExtended == %d" % D,
                             "self.evolventDensity == evolventDensity",
                             "fresh(self.yValues) and fresh(self.lowerBoundOfFloatVariables) and "
                             "fresh(self.upperBoundOfFloatVariables)",
                             "self.yValues is not self.lowerBoundOfFloatVariables and self.yValues is not "
                             "self.upperBoundOfFloatVariables and self.lowerBoundOfFloatVariables is not "
                             "self.upperBoundOfFloatVariables",
                             "vlen(self.yValues) == %d and vlen(self.lowerBoundOfFloatVariables) == %d and "
                             "vlen(self.upperBoundOfFloatVariables) == %d" % (N, N, N)] +
                            ["self.lowerBoundOfFloatVariables[%d] == lowerBoundOfFloatVariables[%d] and "
                             "self.upperBoundOfFloatVariables[%d] == upperBoundOfFloatVariables[%d]" % (i, i, i, i)
                             for i in range(N)],
                    doc="constructor: D = 2^N, owned copies of the bounds, configured density stored")


# ----------------------------------------------------------------------------- inverse direction (C09)
def calculate_numbr(N):
    """(s, l, v) is the node-table row whose u-vector is the argument: the exact inverse of __CalculateNode."""
    import itertools
    cases = [" and ".join("u[%d] == %d" % (i, s) for i, s in enumerate(sig)) for sig in itertools.product((1, -1), repeat=N)]
    return Contract(
        FILE, "Evolvent.__CalculateNumbr",
        params={"u": "vec:int", "v": "vec:int"}, result="tuple(real,int,vec:int)",
        setup=setup_N(N),
        requires=["forall(0, %d, lambda i: u[i] == 1 or u[i] == -1)" % N, "u is not v",
                  "vlen(u) == %d" % N, "vlen(v) == %d" % N, "self.numberOfFloatVariables == %d" % N,
                  "self.nexpExtended == %d" % (2 ** N)],
        modifies=["elems(v)"],
        ensures=["result[2] is v", "node_spec(%d, result[0], result[1], u, v)" % N,
                 "isint(result[0]) and 0 <= result[0] and result[0] <= %d" % (2 ** N - 1)],
        cases=cases, allocates=False,
        doc="inverse node rule: digit, next axis and orientation from the Gray sign vector")


def getxony_loop(N):
    D = 2 ** N
    before = ["gP = 1.0", "gW = 1.0", "gidx = 0"]
    end = ["gP = 2 * gP", "gW = %d * gW" % D, "gidx = %d * gidx + floor(iis)" % D]
    inv = [
        "0 <= it and it < %d" % N,
        "forall(0, %d, lambda i: w[i] == 1 or w[i] == -1)" % N,
        "vlen(u) == %d and vlen(v) == %d and vlen(w) == %d and vlen(self.yValues) == %d" % (N, N, N, N),
        "gP >= 1 and r * gP == 0.5 and gP == ipow(2, j)",
        "gW >= 1 and gW == ipow(%d, j) and r1 * gW == 1" % D,
        "0 <= gidx and gidx <= gW - 1 and x * gW == gidx",
        "0 <= j and j <= self.evolventDensity",
        "self.yValues is not u and self.yValues is not v and self.yValues is not w and u is not v and u is not w "
        "and v is not w and fresh(u) and fresh(v) and fresh(w)",
        "self.numberOfFloatVariables == %d and self.nexpExtended == %d" % (N, D),
        "forall(0, %d, lambda i: -r <= self.yValues[i] and self.yValues[i] <= r)" % N,
        "self.yValues is old(self.yValues)",
    ]
    return LoopSpec(invariant=inv, modifies=["elems(self.yValues)", "elems(u)", "elems(v)", "elems(w)"],
                    variant="self.evolventDensity - j", ghost_before=before, ghost_body_end=end)


def getxony(N):
    D = 2 ** N
    W = "ipow(%d, self.evolventDensity)" % D
    return Contract(
        FILE, "Evolvent.__GetXonY", params={}, result="real",
        setup=setup_N(N),
        requires=["self.evolventDensity >= 1", "self.numberOfFloatVariables == %d" % N, "self.nexpExtended == %d" % D,
                  "vlen(self.yValues) == %d" % N,
                  "forall(0, %d, lambda i: -0.5 <= self.yValues[i] and self.yValues[i] <= 0.5)" % N],
        modifies=["elems(self.yValues)"],
        ensures=["result * %s == gidx" % W, "0 <= gidx and gidx <= %s - 1" % W,
                 "forall(0, %d, lambda i: -1 <= self.yValues[i] * 2 * ipow(2, self.evolventDensity) and "
                 "self.yValues[i] * 2 * ipow(2, self.evolventDensity) <= 1)" % N],
        ghost_results={"gidx": "int"},
        doc="left end gidx/D^m of a subinterval; the residual left in yValues is at most half a cell per axis")


def inverse_api(name, N):
    """GetInverseImage / GetPreimages (same body, two contracts with the same clauses)."""
    D = 2 ** N
    W = "ipow(%d, self.evolventDensity)" % D
    req = ["self.evolventDensity >= 1", "self.numberOfFloatVariables == %d" % N, "self.nexpExtended == %d" % D,
           "vlen(y) == %d" % N, "y is not self.lowerBoundOfFloatVariables and y is not self.upperBoundOfFloatVariables"] + BOX_REQ(N) + \
          ["self.lowerBoundOfFloatVariables[%d] <= y[%d] and y[%d] <= self.upperBoundOfFloatVariables[%d]" % (i, i, i, i)
           for i in range(N)]
    ens = ["result * %s == gidx" % W, "0 <= gidx and gidx <= %s - 1" % W, "0 <= result and result < 1",
           "fresh(self.yValues) and self.yValues is not y"] + \
          ["old(y[%d]) == y[%d]" % (i, i) for i in range(N)] + \
          ["old(self.lowerBoundOfFloatVariables[%d]) == self.lowerBoundOfFloatVariables[%d] and "
           "old(self.upperBoundOfFloatVariables[%d]) == self.upperBoundOfFloatVariables[%d]" % (i, i, i, i) for i in range(N)]
    return Contract(FILE, "Evolvent." + name, params={"y": "vec:real"}, result="real", setup=setup_N(N),
                    requires=req, modifies=["self.yValues"], ensures=ens, ghost_results={"gidx": "int"},
                    doc="x = left end of a subinterval; the argument is not modified")


def inverse_api_1(name):
    return Contract(FILE, "Evolvent." + name, params={"y": "vec:real"}, result="real",
                    setup=["self.numberOfFloatVariables = 1", "self.nexpExtended = 2.0"],
                    requires=["self.numberOfFloatVariables == 1", "vlen(y) == 1",
                              "y is not self.lowerBoundOfFloatVariables and y is not self.upperBoundOfFloatVariables"] + BOX_REQ(1),
                    modifies=["self.yValues"],
                    ensures=["result * (self.upperBoundOfFloatVariables[0] - self.lowerBoundOfFloatVariables[0]) == "
                             "y[0] - self.lowerBoundOfFloatVariables[0]", "old(y[0]) == y[0]",
                             "fresh(self.yValues) and self.yValues is not y"],
                    doc="N = 1: exact affine inverse (y - lower)/(upper - lower)")



def set_bounds(N):
    return Contract(FILE, "Evolvent.SetBounds",
                    params={"lowerBoundOfFloatVariables": "vec:real", "upperBoundOfFloatVariables": "vec:real"},
                    result="none", setup=setup_N(N),
                    requires=["vlen(lowerBoundOfFloatVariables) == %d" % N, "vlen(upperBoundOfFloatVariables) == %d" % N],
                    modifies=["self.lowerBoundOfFloatVariables", "self.upperBoundOfFloatVariables"],
                    ensures=["fresh(self.lowerBoundOfFloatVariables) and fresh(self.upperBoundOfFloatVariables)",
                             "self.lowerBoundOfFloatVariables is not self.upperBoundOfFloatVariables",
                             "vlen(self.lowerBoundOfFloatVariables) == %d and vlen(self.upperBoundOfFloatVariables) == %d" % (N, N),
                             "self.yValues is old(self.yValues)"] +
                            ["self.lowerBoundOfFloatVariables[%d] == lowerBoundOfFloatVariables[%d] and "
                             "self.upperBoundOfFloatVariables[%d] == upperBoundOfFloatVariables[%d] and "
                             "old(lowerBoundOfFloatVariables[%d]) == lowerBoundOfFloatVariables[%d] and "
                             "old(upperBoundOfFloatVariables[%d]) == upperBoundOfFloatVariables[%d]" % ((i,) * 8)
                             for i in range(N)],
                    doc="the configured bounds are owned copies of the arguments; nothing else changes")
