"""Sidecar contracts for iOpt/method/method.py, optim_task.py, process.py (C06 C02 C04 C03 C16 C13 C11 C05).
Specifications only.  The object invariant INV of Method+SearchData is a list of clause groups; every function's
contract says which groups it needs and which it (re-)establishes, so that proofs at call sites are near-syntactic.

Ghost state: the search-data views of contracts/search_data.py; Problem.gcalls / gevals (number of objective calls /
of completed evaluations - written only by the interface contract of Problem.Calculate); Method.gtop (region bound:
every object of the search information was allocated below it); world().gt* (trace of listener notifications)."""
import z3
from pyvc.sym import *
from pyvc.symexec import Contract, LoopSpec
from contracts import search_data as csd
from contracts.core import F_METHOD, F_TASK, F_PROC, F_SD, F_SOLVER

SCHEMA = dict(csd.SCHEMA)
SCHEMA.update({
    "gcalls": "int", "gevals": "int", "gtop": "int",
    "gtn": "int", "gtkind": "seq:int", "gtwho": "seq:object", "gta": "seq:object", "gtb": "seq:object",
    "nfev": "int", "x": "vec:real", "fun": "real",
})

SD = "self.searchData"
SOL = SD + ".solution"
Q = SD + "._RGlobalQueue._CharacteristicsQueue__baseQueue"
PB = "self.task.problem"

# ----------------------------------------------------------------------------- spec functions
HROOT = z3.Function("hroot", RealS, IntS, RealS)        # hroot(d, n) = d ** (1/n), d >= 0, n >= 1
RPOW = z3.Function("rpow", RealS, IntS, RealS)          # rpow(a, n) = a ** n, a >= 0, n >= 1
VECVAL = z3.Function("vecval", z3.ArraySort(IntS, RealS), IntS, IntS)   # abstract value of a real vector (contents, length)
IMGV = z3.Function("imgv", IntS, RealS, IntS)           # abstract value of Evolvent.GetImage(x) for a given evolvent
OBJF = z3.Function("objf", IntS, IntS, RealS)           # the objective as a mathematical function of the abstract point value


def _ax(engine, ax):
    if not any(a.eq(ax) for a in engine.axioms):
        engine.axioms.append(ax)


def _register_rpow(engine, za, zn):
    """rpow(., n) is monotone on [0, inf): instantiated for every pair of base terms that occur (no quantifier)"""
    reg = engine.__dict__.setdefault("_rpow_terms", [])
    if any(za.eq(b) and zn.eq(m) for b, m in reg):
        return
    for b, m in reg:
        _ax(engine, z3.Implies(z3.And(zn == m, za >= 0, za <= b), RPOW(za, zn) <= RPOW(b, m)))
        _ax(engine, z3.Implies(z3.And(zn == m, b >= 0, b <= za), RPOW(b, m) <= RPOW(za, zn)))
    reg.append((za, zn))


def _hroot_axioms(engine):
    if engine.__dict__.get("_hroot_ax"):
        return
    engine.__dict__["_hroot_ax"] = True
    d, n = z3.Real("hd!"), z3.Int("hn!")
    h = HROOT(d, n)
    engine.axioms.append(z3.ForAll([d, n], z3.And(z3.Implies(d > 0, h > 0), z3.Implies(d == 0, h == 0),
                                                   z3.Implies(z3.And(d >= 0, n >= 1), RPOW(h, n) == d),
                                                   z3.Implies(n == 1, h == d)), patterns=[h]))


def spec_hroot(engine, state, d, n):
    zd, zn = to_z3(d, RealS), to_z3(n, IntS)
    h = HROOT(zd, zn)
    _hroot_axioms(engine)
    _ax(engine, z3.And(z3.Implies(zd > 0, h > 0), z3.Implies(zd == 0, h == 0), z3.Implies(zd >= 0, h >= 0),
                       z3.Implies(z3.And(zd >= 0, zn >= 1), RPOW(h, zn) == zd), z3.Implies(zn == 1, h == zd)))
    _register_rpow(engine, h, zn)
    return h


def spec_rpow(engine, state, a, n):
    za, zn = to_z3(a, RealS), to_z3(n, IntS)
    p = RPOW(za, zn)
    _ax(engine, z3.And(z3.Implies(za >= 0, p >= 0), z3.Implies(zn == 1, p == za), z3.Implies(za == 0, p == 0)))
    _register_rpow(engine, za, zn)
    return p


def spec_vecval(engine, state, v):
    key, a = engine.elem_heap(state, "vec:real")
    return VECVAL(z3.Select(a, v.e), to_z3(engine.vec_len(state, v), IntS))


def spec_imgv(engine, state, ev, x):
    return IMGV(ev.e, to_z3(x, RealS))


def spec_objf(engine, state, pb, v):
    return OBJF(pb.e, to_z3(v, IntS))


INBOX = z3.Function("inbox", IntS, IntS, BoolS)      # the abstract point value lies in the box of that evolvent


def spec_inbox(engine, state, ev, v):
    return INBOX(ev.e, to_z3(v, IntS))


def spec_world(engine, state):
    return Ref(0, "World")


def spec_below(engine, state, r, top):
    return z3.And(r.e >= 1, r.e < to_z3(top, IntS))


def spec_allocmark(engine, state):
    return simp(state.abase + state.nalloc)


SPEC_FUNCS = dict(csd.SPEC_FUNCS)
SPEC_FUNCS.update({"inbox": spec_inbox, "hroot": spec_hroot, "rpow": spec_rpow, "vecval": spec_vecval, "imgv": spec_imgv, "objf": spec_objf,
                   "world": spec_world, "below": spec_below, "allocmark": spec_allocmark})


def override_pow(engine, state, args, kw, node):
    """pow(a, 1.0/n) -> hroot(a, n);  pow(a, n) with an integer-valued symbolic n -> rpow(a, n)"""
    a, b = args
    cb = concrete(b)
    if isinstance(cb, int) or (isinstance(cb, Fraction) and cb.denominator == 1 and 0 <= cb <= 8):
        r = to_z3(1, RealS)
        for _ in range(int(cb)):
            r = r * to_z3(a, RealS)
        return r
    zb = to_z3(b)
    if z3.is_int(zb):
        return spec_rpow(engine, state, a, zb)
    if z3.is_app_of(zb, z3.Z3_OP_DIV) and concrete(zb.arg(0)) == 1:
        den = zb.arg(1)
        if z3.is_app_of(den, z3.Z3_OP_TO_REAL):
            return spec_hroot(engine, state, a, den.arg(0))
    if z3.is_app_of(zb, z3.Z3_OP_TO_REAL):
        return spec_rpow(engine, state, a, zb.arg(0))
    engine.unsupported("pow with exponent %s" % zb, node)


def override_deepcopy(engine, state, args, kw, node):
    """ASSUMED contract of copy.deepcopy on a SearchDataItem without neighbours: a fresh, isomorphic object graph
    (item, Point, coordinate vector, value list and value holder are all new objects with equal contents)."""
    src = args[0]
    if not (isinstance(src, Ref) and src.cls == "SearchDataItem"):
        engine.unsupported("copy.deepcopy of %r" % (src,), node)
    new = engine.alloc(state, "SearchDataItem")
    for f in ("_SearchDataItem__x", "_SearchDataItem__discreteValueIndex", "_SearchDataItem__index", "_SearchDataItem__z",
              "delta", "globalR", "localR", "iterationNumber"):
        engine.store(state, new, f, engine.load(state, src, f), node, ghost=True)
    for f in ("_SearchDataItem__leftPoint", "_SearchDataItem__rightPoint"):
        engine.oblige(state, engine.load(state, src, f).e == 0, "deepcopy-shape", node, "the copied item has no neighbours")
        engine.store(state, new, f, None, node, ghost=True)
    p = engine.load(state, src, "point")
    np_ = engine.alloc(state, "Point")
    fv = engine.load(state, p, "floatVariables")
    engine.store(state, np_, "floatVariables", engine.vec_copy(state, fv), node, ghost=True)
    dv = engine.load(state, p, "discreteVariables")
    engine.store(state, np_, "discreteVariables", engine.vec_copy(state, dv) if isinstance(dv, Ref) else None, node, ghost=True)
    engine.store(state, new, "point", np_, node, ghost=True)
    fl = engine.load(state, src, "functionValues")
    engine.oblige(state, to_z3(engine.vec_len(state, fl), IntS) == 1, "deepcopy-shape", node, "one value holder")
    h = engine.vec_get(state, fl, 0)
    nh = engine.alloc(state, "FunctionValue")
    for f in ("value", "type", "functionID"):
        engine.store(state, nh, f, engine.load(state, h, f), node, ghost=True)
    engine.store(state, new, "functionValues", engine.vec_new(state, "list:FunctionValue", elems=[nh]), node, ghost=True)
    return new


OVERRIDES = {"pow": override_pow, "copy.deepcopy": override_deepcopy}


# ----------------------------------------------------------------------------- invariant groups
def _sd(clause):
    return clause.replace("self.", SD + ".")


def item(k):
    return "%s.gseq[%s]" % (SD, k)


G_BASE = ["self.searchData is not None and %s is not None and self.parameters is not None and self.task is not None "
          "and %s is not None and self.evolvent is not None" % (SOL, PB),
          "self.M is not None and self.Z is not None and vlen(self.M) == 1 and vlen(self.Z) == 1 and self.M is not self.Z",
          "%s.bestTrials is not None and vlen(%s.bestTrials) == 1 and %s.bestTrials is not self.M and "
          "%s.bestTrials is not self.Z and %s.bestTrials is not %s._allTrials" % (SOL, SOL, SOL, SOL, SOL, SD),
          "self.evolvent.yValues is not None and self.evolvent.yValues is not self.M and self.evolvent.yValues is not self.Z",
          "self.dimension >= 1 and self.dimension == %s.numberOfFloatVariables" % PB,
          "self.task.perm is not None and vlen(self.task.perm) == 1 and self.task.perm[0] == 0 and "
          "self.task.perm is not %s._allTrials and self.task.perm is not %s.bestTrials" % (SD, SOL),
          "%s.numberOfObjectives == 1 and %s.numberOfConstraints == 0" % (PB, PB),
          "self.parameters.r > 1 and finite(self.parameters.r) and finite(self.parameters.eps)"]
G_WF = [_sd(c) for c in csd.WF] + ["depq_ok(%s)" % Q, "%s.maxlen == 0" % Q]
G_ORD = ["%s.gn >= 3 and %s.GetX() == 0 and %s.GetX() == 1" % (SD, item(0), item("%s.gn - 1" % SD)),
         "forall(0, %s.gn, lambda k: 0 <= %s.GetX() and %s.GetX() <= 1)" % (SD, item("k"), item("k")),
         "forall(0, %s.gn - 1, lambda k: %s.GetX() < %s.GetX())" % (SD, item("k"), item("k + 1")),
         "%s.GetIndex() == -2 and %s.GetIndex() == -2" % (item(0), item("%s.gn - 1" % SD)),
         "forall(1, %s.gn - 1, lambda k: %s.GetIndex() == 0)" % (SD, item("k"))]
G_DELTA = ["forall(1, %s.gn, lambda k: %s.delta == hroot(%s.GetX() - %s.GetX(), self.dimension))"
           % (SD, item("k"), item("k"), item("k - 1"))]
DELTA_K = "%s.delta == hroot(%s.GetX() - %s.GetX(), self.dimension)" % (item("k"), item("k"), item("k - 1"))
G_COUNT = ["self.iterationsCount == %s.gn - 2" % SD, "%s.numberOfGlobalTrials == %s.gn - 2" % (SOL, SD)]

# region: every item of the search information was allocated before the current allocation mark (so that objects
# allocated later cannot alias it)
G_OWN = ["forall(0, %s.gn, lambda k: below(%s, allocmark()))" % (SD, item("k"))]
GROUPS = {"base": G_BASE, "wf": G_WF, "ord": G_ORD, "delta": G_DELTA, "count": G_COUNT, "own": G_OWN}


def inv(*names):
    out = []
    for n in names:
        out += GROUPS[n]
    return out


# ----------------------------------------------------------------------------- characteristics (C02)
RS = z3.Function("rs", RealS, RealS, RealS, RealS, RealS, RealS, IntS, IntS, RealS)


def spec_rs(engine, state, zr, zl, d, m, z, r, il, ir):
    """rs(...) = the AGP characteristic (C02's formula).  Kept as an uninterpreted symbol inside quantified invariants;
    its definition is supplied as an axiom instance for the concrete arguments it is applied to outside quantifiers."""
    a = [to_z3(v, RealS) for v in (zr, zl, d, m, z, r)] + [to_z3(il, IntS), to_z3(ir, IntS)]
    t = RS(*a)
    if engine.quant_depth == 0:
        zr_, zl_, d_, m_, z_, r_, il_, ir_ = a
        inner = d_ + (zr_ - zl_) * (zr_ - zl_) / (d_ * m_ * m_ * r_ * r_) - 2 * (zr_ + zl_ - 2 * z_) / (r_ * m_)
        lb = 2 * d_ - 4 * (zr_ - z_) / (r_ * m_)
        rb = 2 * d_ - 4 * (zl_ - z_) / (r_ * m_)
        _ax(engine, t == z3.If(il_ == ir_, inner, z3.If(il_ < ir_, lb, rb)))
    return t


SPEC_FUNCS["rs"] = spec_rs
SLOPE = z3.Function("slope", RealS, RealS, RealS, RealS)


def spec_slope(engine, state, zl, zr, d):
    """slope(zl, zr, d) = |zr - zl| / d (d > 0): uninterpreted inside quantified invariants, defined by an axiom instance
    for the concrete arguments it is applied to outside quantifiers"""
    a = [to_z3(v, RealS) for v in (zl, zr, d)]
    t = SLOPE(*a)
    if engine.quant_depth == 0:
        zl_, zr_, d_ = a
        _ax(engine, z3.Implies(d_ > 0, z3.And(t * d_ == z3.If(zr_ - zl_ >= 0, zr_ - zl_, zl_ - zr_), t >= 0,
                                              t == z3.If(zr_ - zl_ >= 0, zr_ - zl_, zl_ - zr_) / d_)))
    return t


SPEC_FUNCS["slope"] = spec_slope


def rspec(cur, left):
    return "rs(%s.GetZ(), %s.GetZ(), %s.delta, self.M[0], self.Z[0], self.parameters.r, %s.GetIndex(), %s.GetIndex())" % (
        cur, left, cur, left, cur)


def rspec_formula(cur, left):
    """the AGP characteristic of the interval (left, cur] as an expression over the current M, Z, r (C02's formula)"""
    zr, zl, d = "%s.GetZ()" % cur, "%s.GetZ()" % left, "%s.delta" % cur
    m, z, r = "self.M[0]", "self.Z[0]", "self.parameters.r"
    inner = "%s + (%s - %s) * (%s - %s) / (%s * %s * %s * %s * %s) - 2 * (%s + %s - 2 * %s) / (%s * %s)" % (
        d, zr, zl, zr, zl, d, m, m, r, r, zr, zl, z, r, m)
    lb = "2 * %s - 4 * (%s - %s) / (%s * %s)" % (d, zr, z, r, m)
    rb = "2 * %s - 4 * (%s - %s) / (%s * %s)" % (d, zl, z, r, m)
    return "((%s) if %s.GetIndex() == %s.GetIndex() else ((%s) if %s.GetIndex() < %s.GetIndex() else (%s)))" % (
        inner, left, cur, lb, left, cur, rb)


def member(x):
    return csd.member(x, SD)


G_RQ = ["self.recalc or forall(0, %s.glen, lambda qi: %s and %s.gkeys[qi] == %s.gitems[qi].globalR)"
        % (Q, member("%s.gitems[qi]" % Q), Q, Q),
        "self.recalc or forall(0, %s.gn, lambda k: %s.gcnt[%s] >= 1)" % (SD, Q, item("k")),
        "self.recalc or (%s.globalR == NINF() and forall(1, %s.gn, lambda k: %s.globalR == %s))"
        % (item(0), SD, item("k"), rspec(item("k"), item("k - 1")))]
# evaluated trials carry finite values, the optimum estimate is their minimum, M bounds every current slope
G_VAL = ["forall(1, %s.gn - 1, lambda k: finite(%s.GetZ()))" % (SD, item("k")),
         "finite(self.Z[0]) and self.M[0] >= 1",
         "forall(1, %s.gn - 1, lambda k: self.Z[0] <= %s.GetZ())" % (SD, item("k")),
         "forall(2, %s.gn - 1, lambda k: slope(%s.GetZ(), %s.GetZ(), %s.delta) <= self.M[0])"
         % (SD, item("k - 1"), item("k"), item("k"))]
BEST_FID = ["{b}.point is not None and {b}.point.floatVariables is not None and "
            "{b}.GetZ() == objf(%s, vecval({b}.point.floatVariables)) and "
            "inbox(self.evolvent, vecval({b}.point.floatVariables))" % PB,
            "{b}.functionValues is not None and vlen({b}.functionValues) == 1 and {b}.functionValues[0] is not None "
            "and {b}.functionValues[0].value == {b}.GetZ()",
            # separation (only within one element family: float vectors and reference lists live in different heaps)
            "{b}.functionValues is not %s.bestTrials and {b}.functionValues is not %s._allTrials and "
            "{b}.functionValues is not self.task.perm and {b}.point.floatVariables is not self.evolvent.yValues and "
            "{b}.point.floatVariables is not self.M and {b}.point.floatVariables is not self.Z"
            % (SOL, SD)]
G_BEST = ["%s and self.best.GetIndex() == 0" % member("self.best"),
          "self.Z[0] == self.best.GetZ()", "%s.bestTrials[0] is self.best" % SOL] + [c.replace("{b}", "self.best") for c in BEST_FID]
GROUPS.update({"rq": G_RQ, "val": G_VAL, "best": G_BEST})
ALL = ("base", "wf", "own", "ord", "delta", "val", "best", "rq")

FLOAT_NOTE = "no float overflow: a characteristic computed from finite operands is finite (> -inf)"
F_EV = "iOpt/evolvent/evolvent.py"
F_PROBLEM = "iOpt/problem.py"
F_LISTENER = "iOpt/method/listener.py"
QMODS = ["allof(gitems)", "allof(gkeys)", "allof(glen)", "allof(gcnt)"]


# ----------------------------------------------------------------------------- assumed / interface contracts
def get_image_abs():
    """Evolvent.GetImage as seen by the method: an abstract of the contracts VERIFIED under C07/C17 (fresh result, only
    the scratch vector written, the result a function of x and the evolvent's configuration)."""
    return Contract(F_EV, "Evolvent.GetImage", params={"x": "real"}, result="vec:real",
                    modifies=["self.yValues", "elems(self.yValues)"],
                    requires=["0 <= x and x <= 1"],
                    ensures=["fresh(result)", "result is not self.yValues", "vecval(result) == imgv(self, x)",
                             "inbox(self, vecval(result))",
                             "vlen(result) == self.numberOfFloatVariables",
                             "fresh(self.yValues) or self.yValues is old(self.yValues)"],
                    doc="abstract of the GetImage contract verified under C07/C17")


def problem_calculate():
    """INTERFACE contract of the user-supplied objective (hypothesis T5 of the properties, never verified): returns a
    value holder with the objective's value at the point - the supplied holder or a new object -, writes nothing but the
    supplied holder, or raises any BaseException."""
    return Contract(F_PROBLEM, "Problem.Calculate", params={"point": "ref:Point", "functionValue": "ref:FunctionValue"},
                    result="ref:FunctionValue", modifies=["functionValue.value", "self.gcalls", "self.gevals"],
                    requires=["point.floatVariables is not None"],
                    ensures=["self.gcalls == old(self.gcalls) + 1 and self.gevals == old(self.gevals) + 1",
                             "result.value == objf(self, vecval(point.floatVariables)) and finite(result.value)",
                             "result is functionValue or fresh(result)"],
                    raises={"$any": ["self.gcalls == old(self.gcalls) + 1 and self.gevals == old(self.gevals)"]},
                    doc="interface contract of Problem.Calculate (user code)")


def listener_contracts():
    """INTERFACE contracts of listener callbacks (T5): a callback writes nothing reachable from the solver; its only
    modelled effect is the ghost notification trace world().gt*"""
    cs = []
    for kind, (name, params) in enumerate([("BeforeMethodStart", {"searchData": "ref:object"}),
                                           ("OnEndIteration", {"searchData": "ref:object", "solution": "ref:object"}),
                                           ("OnMethodStop", {"searchData": "ref:object", "solution": "ref:object",
                                                             "status": "bool"})], start=1):
        a = "searchData"
        b = "solution" if "solution" in params else "None"
        cs.append(Contract(F_LISTENER, "Listener." + name, params=params, result="none", allocates=True,
                           modifies=["world().gtn", "world().gtkind", "world().gtwho", "world().gta", "world().gtb"],
                           ensures=["world().gtn == old(world().gtn) + 1",
                                    "world().gtkind == seq_store(old(world().gtkind), old(world().gtn), %d)" % kind,
                                    "world().gtwho == seq_store(old(world().gtwho), old(world().gtn), self)",
                                    "world().gta == seq_store(old(world().gta), old(world().gtn), %s)" % a,
                                    "world().gtb == seq_store(old(world().gtb), old(world().gtn), %s)" % b],
                           doc="interface contract of a listener callback: no effect on the solver; ghost trace entry"))
    return cs


# ----------------------------------------------------------------------------- small Method functions
def calculate_delta():
    return Contract(F_METHOD, "Method.CalculateDelta", params={"lx": "real", "rx": "real", "dimension": "int"}, result="real",
                    modifies=[], allocates=False, requires=["dimension >= 1", "rx - lx >= 0"],
                    ensures=["result == hroot(rx - lx, dimension)"],
                    doc="C06: the Hoelder length (rx - lx)^(1/N)")


def calculate_m():
    same = "(left_point is not None and left_point.GetIndex() == curr_point.GetIndex())"
    return Contract(F_METHOD, "Method.CalculateM", params={"curr_point": "ref:SearchDataItem", "left_point": "ref:SearchDataItem?"},
                    result="none", modifies=["elems(self.M)", "self.recalc"], allocates=False,
                    requires=["self.M is not None and vlen(self.M) == 1",
                              "implies(%s, curr_point.GetIndex() == 0 and curr_point.delta > 0)" % same],
                    ensures=["implies(not %s, self.M[0] == old(self.M[0]) and self.recalc == old(self.recalc))" % same,
                             "implies(%s, self.M[0] == max(old(self.M[0]), abs(left_point.GetZ() - curr_point.GetZ()) / "
                             "curr_point.delta))" % same,
                             "implies(%s, self.recalc == (old(self.recalc) or self.M[0] != old(self.M[0])))" % same,
                             "implies(%s, self.M[0] == max(old(self.M[0]), slope(left_point.GetZ(), curr_point.GetZ(), "
                             "curr_point.delta)))" % same,
                             "self.M[0] >= old(self.M[0])"],
                    doc="C02: M = largest slope |dz|/D seen (never decreases); a change of M requests a recalculation")


def calculate_global_r():
    return Contract(F_METHOD, "Method.CalculateGlobalR",
                    params={"curr_point": "ref:SearchDataItem", "left_point": "ref:SearchDataItem?"}, result="none",
                    modifies=["curr_point.globalR"], allocates=False,
                    requires=["self.M is not None and vlen(self.M) == 1 and self.Z is not None and vlen(self.Z) == 1 and "
                              "self.parameters is not None",
                              "implies(left_point is not None, curr_point.delta > 0)",
                              "implies(left_point is not None, self.M[0] >= 1 and self.parameters.r > 1)",
                              "implies(left_point is not None, (curr_point.GetIndex() == 0 or curr_point.GetIndex() == -2) and "
                              "(left_point.GetIndex() == 0 or left_point.GetIndex() == -2) and "
                              "(curr_point.GetIndex() == 0 or left_point.GetIndex() == 0))"],
                    ensures=["implies(left_point is None, curr_point.globalR == NINF())",
                             "implies(left_point is not None, curr_point.globalR == %s)" % rspec_formula("curr_point", "left_point"),
                             "implies(left_point is not None, curr_point.globalR == %s)" % rspec("curr_point", "left_point")],
                    assumed_ensures=["implies(left_point is not None, curr_point.globalR > NINF())"],
                    doc="C02: the characteristic of the interval (interior / left-boundary / right-boundary formula); "
                        "ASSUMED (not proved): " + FLOAT_NOTE)


def next_point():
    same = "(point.GetLeft().GetIndex() == point.GetIndex())"
    mid = "(point.GetLeft().GetX() + point.GetX()) / 2"
    dz = "(point.GetZ() - point.GetLeft().GetZ())"
    return Contract(F_METHOD, "Method.CalculateNextPointCoordinate", params={"point": "ref:SearchDataItem"}, result="real",
                    modifies=[], allocates=False,
                    requires=["point.GetLeft() is not None and point.GetLeft().GetX() < point.GetX()",
                              "self.M is not None and vlen(self.M) == 1 and self.M[0] >= 1 and self.parameters is not None and "
                              "self.parameters.r > 1 and self.task is not None and %s is not None" % PB,
                              "%s.numberOfFloatVariables >= 1" % PB,
                              "implies(%s, point.GetIndex() == 0 and point.delta > 0 and "
                              "slope(point.GetLeft().GetZ(), point.GetZ(), point.delta) <= self.M[0] and "
                              "point.delta == hroot(point.GetX() - point.GetLeft().GetX(), %s.numberOfFloatVariables))"
                              % (same, PB)],
                    ensures=["implies(not %s, result == %s)" % (same, mid),
                             "implies(%s, result == %s - (1 if %s > 0 else -1) * rpow(abs(%s) / self.M[0], "
                             "%s.numberOfFloatVariables) / (2 * self.parameters.r))" % (same, mid, dz, dz, PB),
                             "point.GetLeft().GetX() < result and result < point.GetX()"],
                    doc="C02: new point = midpoint - sign(dz) (|dz|/M)^N / (2r) (midpoint for boundary intervals), "
                        "strictly inside the interval; the two `raise` statements are unreachable")


def check_stop():
    return Contract(F_METHOD, "Method.CheckStopCondition", params={}, result="bool", modifies=["self.stop"], allocates=False,
                    requires=["self.searchData is not None and %s is not None and self.parameters is not None" % SOL],
                    ensures=["result == (%s.solutionAccuracy < self.parameters.eps or "
                             "self.iterationsCount >= self.parameters.itersLimit)" % SOL, "self.stop == result"],
                    doc="C03: stop iff the accuracy is below eps or the iteration budget is exhausted")


def finalize_iteration():
    return Contract(F_METHOD, "Method.FinalizeIteration", params={}, result="none", modifies=["self.iterationsCount"],
                    allocates=False, ensures=["self.iterationsCount == old(self.iterationsCount) + 1"],
                    doc="C03: one completed iteration")


def task_calculate():
    fv = "dataItem.functionValues"
    return Contract(F_TASK, "OptimizationTask.Calculate",
                    params={"dataItem": "ref:SearchDataItem", "functionIndex": "int", "type": "any"}, result="ref:SearchDataItem",
                    modifies=["elems(%s)" % fv, "%s[0].value" % fv, "self.problem.gcalls", "self.problem.gevals"],
                    requires=["functionIndex == 0", "self.perm is not None and vlen(self.perm) == 1 and self.perm[0] == 0",
                              "self.problem is not None", "%s is not None and vlen(%s) == 1 and %s[0] is not None" % (fv, fv, fv),
                              "dataItem.point is not None and dataItem.point.floatVariables is not None"],
                    ensures=["result is dataItem", "vlen(%s) == 1 and %s[0] is not None" % (fv, fv),
                             "%s[0].value == objf(self.problem, vecval(dataItem.point.floatVariables)) and finite(%s[0].value)" % (fv, fv),
                             "%s[0] is old(%s[0]) or fresh(%s[0])" % (fv, fv, fv),
                             "self.problem.gcalls == old(self.problem.gcalls) + 1 and self.problem.gevals == old(self.problem.gevals) + 1"],
                    raises={"$any": ["self.problem.gcalls == old(self.problem.gcalls) + 1 and "
                                     "self.problem.gevals == old(self.problem.gevals)",
                                     "vlen(%s) == 1 and %s[0] is old(%s[0])" % (fv, fv, fv)]},
                    doc="C04: the objective's value at the item's point is stored in the item's own value holder")


def calculate_functionals():
    fv = "point.functionValues"
    return Contract(F_METHOD, "Method.CalculateFunctionals", params={"point": "ref:SearchDataItem"}, result="ref:SearchDataItem",
                    modifies=["elems(%s)" % fv, "%s[0].value" % fv, "%s.gcalls" % PB, "%s.gevals" % PB,
                              "point._SearchDataItem__z", "point._SearchDataItem__index", "%s.numberOfGlobalTrials" % SOL],
                    requires=["self.task is not None and self.task.perm is not None and vlen(self.task.perm) == 1 and "
                              "self.task.perm[0] == 0 and %s is not None" % PB,
                              "self.searchData is not None and %s is not None" % SOL,
                              "%s is not None and vlen(%s) == 1 and %s[0] is not None" % (fv, fv, fv),
                              "point.point is not None and point.point.floatVariables is not None",
                              # C05: the objective is only ever evaluated at points of the box
                              "inbox(self.evolvent, vecval(point.point.floatVariables))"],
                    ensures=["result is point", "point.GetIndex() == 0",
                             "point.GetZ() == objf(%s, vecval(point.point.floatVariables)) and finite(point.GetZ())" % PB,
                             "vlen(%s) == 1 and %s[0] is not None and %s[0].value == point.GetZ()" % (fv, fv, fv),
                             "%s[0] is old(%s[0]) or fresh(%s[0])" % (fv, fv, fv),
                             "%s.numberOfGlobalTrials == old(%s.numberOfGlobalTrials) + 1" % (SOL, SOL),
                             "%s.gcalls == old(%s.gcalls) + 1 and %s.gevals == old(%s.gevals) + 1" % (PB, PB, PB, PB)],
                    raises={"$any": ["%s.numberOfGlobalTrials == old(%s.numberOfGlobalTrials)" % (SOL, SOL),
                                     "%s.gcalls == old(%s.gcalls) + 1 and %s.gevals == old(%s.gevals)" % (PB, PB, PB, PB),
                                     "point.GetZ() == old(point.GetZ()) and point.GetIndex() == old(point.GetIndex())"]},
                    doc="C03/C04/C16: one objective evaluation at the item's point; value, index and trial counter are "
                        "updated only when the evaluation completes")


def update_optimum():
    better = "(old(self.best) is None or point.GetZ() < old(self.best.GetZ()))"
    return Contract(F_METHOD, "Method.UpdateOptimum", params={"point": "ref:SearchDataItem"}, result="none",
                    modifies=["self.best", "self.recalc", "elems(self.Z)", "elems(%s.bestTrials)" % SOL], allocates=False,
                    requires=["point.GetIndex() == 0", "self.best is None or self.best.GetIndex() == 0",
                              "self.Z is not None and vlen(self.Z) == 1 and self.searchData is not None and %s is not None and "
                              "%s.bestTrials is not None and vlen(%s.bestTrials) == 1 and %s.bestTrials is not self.Z"
                              % (SOL, SOL, SOL, SOL),
                              "self.best is None or self.Z[0] == self.best.GetZ()"],
                    ensures=["implies(%s, self.best is point and self.recalc == True)" % better,
                             "implies(not %s, self.best is old(self.best) and self.recalc == old(self.recalc))" % better,
                             "self.Z[0] == self.best.GetZ()", "%s.bestTrials[0] is self.best" % SOL,
                             "self.Z[0] <= point.GetZ() and implies(old(self.best) is not None, self.Z[0] <= old(self.Z[0]))"],
                    doc="C04: the optimum estimate is the first trial with the smallest value seen so far")




# ----------------------------------------------------------------------------- the iteration (C02 C06 C04)
RQ_CUR = "forall(0, %s.glen, lambda qi: %s.gkeys[qi] == %s.gitems[qi].globalR)" % (Q, Q, Q)
RQ_MEM = "forall_ref('SearchDataItem', lambda qo: implies(%s.gcnt[qo] >= 1, %s))" % (Q, member("qo"))
RQ_SPEC = "%s.globalR == NINF() and forall(1, %s.gn, lambda k: %s.globalR == %s)" % (item(0), SD, item("k"), rspec(item("k"), item("k - 1")))
RQ_FIN = "forall(1, %s.gn, lambda k: %s.globalR > NINF())" % (SD, item("k"))
GROUPS["rq"] = ["self.recalc or (%s)" % RQ_CUR, "self.recalc or (%s)" % RQ_MEM,
                "self.recalc or forall(0, %s.gn, lambda k: %s.gcnt[%s] == 1)" % (SD, Q, item("k")),
                "self.recalc or (%s)" % RQ_SPEC,
                "self.recalc or (%s)" % RQ_FIN]
_FN = "no float overflow: a characteristic computed from finite operands is finite (> -inf)"


def recalc_all():
    keep = inv("base", "wf", "own", "ord", "delta", "val")
    return Contract(F_METHOD, "Method.RecalcAllCharacteristics", params={}, result="none",
                    modifies=["self.recalc", "allof(globalR)", "allof(curIter)"] + QMODS, allocates=False,
                    requires=keep + inv("rq"),
                    ensures=["depq_ok(%s)" % Q, RQ_CUR, RQ_MEM, "forall(0, %s.gn, lambda k: %s.gcnt[%s] == 1)" % (SD, Q, item("k")), RQ_SPEC,
                             RQ_FIN, "self.recalc == False",
                             "implies(old(self.recalc) == False, %s.glen == old(%s.glen) and %s.gitems == old(%s.gitems) and "
                             "%s.gkeys == old(%s.gkeys) and %s.gcnt == old(%s.gcnt))" % ((Q,) * 8)],
                    doc="C02: when M or the optimum changed, every characteristic is recomputed with the current M, z* and the "
                        "queue rebuilt with every interval exactly once")


def recalc_loop():
    return LoopSpec(ghost_before=["gj = 0"], ghost_body_end=["gj = gj + 1"],
                    invariant=["0 <= gj and gj <= %s.gn" % SD,
                               "(gj < {sd}.gn and {sd}.curIter is {sd}.gseq[gj]) or (gj == {sd}.gn and {sd}.curIter is None)".format(sd=SD),
                               "implies(gj >= 1, %s.globalR == NINF())" % item(0),
                               "forall(1, gj, lambda k: %s.globalR == %s and %s.globalR > NINF())"
                               % (item("k"), rspec(item("k"), item("k - 1")), item("k"))],
                    modifies=["allof(globalR)", "allof(curIter)"], variant="%s.gn - gj" % SD)


def new_item_post(n):
    """shape of the freshly created, not yet evaluated item"""
    return ["fresh({n}) and fresh({n}.point) and fresh({n}.point.floatVariables) and fresh({n}.functionValues) and "
            "fresh({n}.functionValues[0])".format(n=n),
            "{n}.GetLeft() is None and {n}.GetRight() is None and vlen({n}.functionValues) == 1".format(n=n),
            "vecval({n}.point.floatVariables) == imgv(self.evolvent, {n}.GetX())".format(n=n),
            "inbox(self.evolvent, vecval({n}.point.floatVariables))".format(n=n),
            "{n}.point.floatVariables is not self.evolvent.yValues".format(n=n)]


def iteration_point():
    o, n = "result[1]", "result[0]"
    same = "(%s.GetLeft().GetIndex() == %s.GetIndex())" % (o, o)
    mid = "(%s.GetLeft().GetX() + %s.GetX()) / 2" % (o, o)
    dz = "(%s.GetZ() - %s.GetLeft().GetZ())" % (o, o)
    return Contract(F_METHOD, "Method.CalculateIterationPoint", params={}, result="tuple(ref:SearchDataItem,ref:SearchDataItem)",
                    modifies=["self.recalc", "allof(globalR)", "allof(curIter)", "%s.solutionAccuracy" % SOL,
                              "self.evolvent.yValues", "elems(self.evolvent.yValues)"] + QMODS,
                    requires=inv(*ALL),
                    ensures=["depq_ok(%s)" % Q, "self.recalc == False", RQ_CUR, RQ_MEM, RQ_SPEC, RQ_FIN,
                             # C02: the chosen interval has the maximal characteristic over ALL intervals of the partition
                             "%s and %s.gpos[%s] >= 1" % (member(o), SD, o),
                             "forall(0, %s.gn, lambda k: %s.globalR <= %s.globalR)" % (SD, item("k"), o),
                             "forall(0, %s.gn, lambda k: %s.gcnt[%s] == (0 if %s is %s else 1))" % (SD, Q, item("k"), item("k"), o),
                             # C02: the new point by the rule, strictly inside the chosen interval
                             "implies(not %s, %s.GetX() == %s)" % (same, n, mid),
                             "implies(%s, %s.GetX() == %s - (1 if %s > 0 else -1) * rpow(abs(%s) / self.M[0], "
                             "%s.numberOfFloatVariables) / (2 * self.parameters.r))" % (same, n, mid, dz, dz, PB),
                             "%s.GetLeft().GetX() < %s.GetX() and %s.GetX() < %s.GetX()" % (o, n, n, o),
                             # C03: the accuracy is the smallest Hoelder length of a subdivided interval
                             "%s.solutionAccuracy == min(%s.delta, old(%s.solutionAccuracy))" % (SOL, o, SOL),
                             "%s.solutionAccuracy <= old(%s.solutionAccuracy)" % (SOL, SOL),
                             "%s.GetIndex() == -2" % n, G_BASE[3],
                             "fresh(self.evolvent.yValues) or self.evolvent.yValues is old(self.evolvent.yValues)"] + new_item_post(n),
                    chain=True,
                    ghost_after={"GetDataItemWithMaxGlobalR": [
                        # lemma hints: the popped entry is a member with the maximal characteristic over the whole partition
                        "assert %s" % member("old"),
                        "assert forall(0, {q}.glen, lambda qi: {q}.gkeys[qi] == {q}.gitems[qi].globalR and "
                        "{q}.gkeys[qi] <= old.globalR)".format(q=Q),
                        "assert %s" % RQ_MEM,
                        "assert forall(0, %s.gn, lambda k: %s.gcnt[%s] == (0 if %s is old else 1))" % (SD, Q, item("k"), item("k")),
                        "assert forall(0, %s.gn, lambda k: %s.globalR <= old.globalR)" % (SD, item("k")),
                        "assert %s.gpos[old] >= 1" % SD,
                        "assert old.GetLeft() is %s.gseq[%s.gpos[old] - 1]" % (SD, SD),
                        "assert %s" % RQ_SPEC, "assert %s" % RQ_FIN, "assert self.recalc == False"]},
                    doc="C02/C03: arg-max interval over the whole partition with current characteristics, new point by the AGP "
                        "rule strictly inside it, accuracy updated from the chosen interval; the new item is a fresh deep copy")


def renew_search_data():
    n, o = "newpoint", "oldpoint"
    l = "old(oldpoint.GetLeft())"
    keep = inv("base", "wf", "own", "ord", "delta", "val")
    pending = ["self.recalc or (%s)" % RQ_CUR, "self.recalc or (%s)" % RQ_MEM,
               "self.recalc or forall(0, %s.gn, lambda k: %s.gcnt[%s] == (0 if %s is oldpoint else 1))" % (SD, Q, item("k"), item("k")),
               "self.recalc or (%s)" % RQ_SPEC, "self.recalc or (%s)" % RQ_FIN]
    return Contract(F_METHOD, "Method.RenewSearchData", params={"newpoint": "ref:SearchDataItem", "oldpoint": "ref:SearchDataItem"},
                    result="none",
                    modifies=["oldpoint.delta", "newpoint.delta", "elems(self.M)", "self.recalc", "newpoint.globalR",
                              "oldpoint.globalR", "newpoint._SearchDataItem__leftPoint", "newpoint._SearchDataItem__rightPoint",
                              "oldpoint._SearchDataItem__leftPoint", "oldpoint.GetLeft()._SearchDataItem__rightPoint",
                              "elems(%s._allTrials)" % SD, "len_(%s._allTrials)" % SD, "%s.curIter" % SD, "%s.gseq" % SD, "%s.gn" % SD, "%s.gpos" % SD] + QMODS,
                    allocates=False,
                    requires=keep + pending + [
                        "%s and %s.gpos[oldpoint] >= 1" % (member(o), SD),
                        "not %s and forall(0, %s.gn, lambda k: %s is not newpoint)" % (member(n), SD, item("k")),
                        "oldpoint.GetLeft().GetX() < newpoint.GetX() and newpoint.GetX() < oldpoint.GetX()",
                        "newpoint.GetIndex() == 0 and finite(newpoint.GetZ()) and self.Z[0] <= newpoint.GetZ()",
                        "self.best is newpoint or (%s)" % GROUPS["best"][0], "self.Z[0] == self.best.GetZ()",
                        "%s.bestTrials[0] is self.best" % SOL] + [c.replace("{b}", "self.best") for c in BEST_FID],
                    ensures=keep + inv("rq", "best") + [
                        "%s.gn == old(%s.gn) + 1 and %s" % (SD, SD, csd.ins_rel("%s.gseq" % SD, "old(%s.gseq)" % SD, "old(%s.gn)" % SD,
                                                                               "old(%s.gpos[oldpoint])" % SD, "newpoint")),
                        "newpoint.delta == hroot(newpoint.GetX() - %s.GetX(), self.dimension)" % l,
                        "oldpoint.delta == hroot(oldpoint.GetX() - newpoint.GetX(), self.dimension)",
                        # C02: M is the largest slope over every neighbouring pair seen so far (per-step form)
                        "self.M[0] == max(max(old(self.M[0]), (abs({l}.GetZ() - newpoint.GetZ()) / newpoint.delta) if "
                        "{l}.GetIndex() == 0 else old(self.M[0])), (abs(newpoint.GetZ() - oldpoint.GetZ()) / oldpoint.delta) if "
                        "oldpoint.GetIndex() == 0 else old(self.M[0]))".format(l=l),
                        "implies(self.M[0] != old(self.M[0]), self.recalc)",
                        "%s._allTrials[vlen(%s._allTrials) - 1] is newpoint" % (SD, SD),
                        "forall(0, old(vlen(%s._allTrials)), lambda k: %s._allTrials[k] is old(%s._allTrials[k]))" % (SD, SD, SD)],
                    ghost_after={"self.CalculateGlobalR(oldpoint, newpoint)": [
                        # lemma hints: no queue entry belongs to the two items whose characteristic was just rewritten
                        "assert self.recalc or forall(0, %s.glen, lambda qi: %s.gitems[qi] is not oldpoint and "
                        "%s.gitems[qi] is not newpoint)" % (Q, Q, Q),
                        "assert self.recalc or (%s)" % RQ_CUR,
                        "assert self.recalc or (%s.gcnt[newpoint] == 0 and %s.gcnt[oldpoint] == 0)" % (Q, Q)]},
                    ghost_exit=["gk0 = old(%s.gpos[oldpoint])" % SD,
                                "assert %s is newpoint and %s is oldpoint and %s is old(oldpoint.GetLeft())"
                                % (item("gk0"), item("gk0 + 1"), item("gk0 - 1")),
                                "assert forall(1, gk0, lambda k: %s)" % DELTA_K,
                                "assert forall(gk0 + 2, %s.gn, lambda k: %s)" % (SD, DELTA_K)],
                    doc="C06/C02: both new interval lengths, the slope estimate, both characteristics are recomputed and the "
                        "item is spliced into the ordered list; the invariant of the search information is re-established")


def first_iteration():
    init = ["%s.gn == 0 and %s._allTrials is not None and vlen(%s._allTrials) == 0" % (SD, SD, SD),
            "%s._RGlobalQueue is not None and %s is not None and depq_ok(%s) and %s.maxlen == 0 and %s.glen == 0"
            % (SD, Q, Q, Q, Q),
            "self.best is None and self.M[0] == 1 and self.Z[0] == PINF() and self.recalc == True"]
    return Contract(F_METHOD, "Method.FirstIteration", params={}, result="none",
                    modifies=["self.iterationsCount", "self.best", "self.recalc", "elems(self.Z)", "elems(%s.bestTrials)" % SOL,
                              "%s.numberOfGlobalTrials" % SOL, "%s.gcalls" % PB, "%s.gevals" % PB,
                              "self.evolvent.yValues", "elems(self.evolvent.yValues)", "elems(%s._allTrials)" % SD, "len_(%s._allTrials)" % SD,
                              "%s._SearchData__firstDataItem" % SD, "%s.curIter" % SD, "%s.gseq" % SD, "%s.gn" % SD,
                              "%s.gpos" % SD] + QMODS,
                    requires=inv("base") + init,
                    ensures=inv(*ALL) + ["self.iterationsCount == 1",
                                         "%s.numberOfGlobalTrials == old(%s.numberOfGlobalTrials) + 1" % (SOL, SOL),
                                         "%s.gevals == old(%s.gevals) + 1 and %s.gcalls == old(%s.gcalls) + 1" % (PB, PB, PB, PB),
                                         "%s.gn == 3 and %s.GetX() == 0.5" % (SD, item(1)),
                                         "vlen(%s._allTrials) == 3 and %s._allTrials[2] is %s" % (SD, SD, item(1)),
                                         "fresh(%s) and fresh(%s) and fresh(%s)" % (item(0), item(1), item(2)),
                                         # ownership: the evaluated item owns freshly allocated point / coordinate / value holders
                                         "fresh({i}.point) and fresh({i}.point.floatVariables) and fresh({i}.functionValues) and "
                                         "fresh({i}.functionValues[0])".format(i=item(1)),
                                         "vecval(%s.point.floatVariables) == imgv(self.evolvent, 0.5)" % item(1),
                                         "fresh(self.evolvent.yValues) or self.evolvent.yValues is old(self.evolvent.yValues)",
                                         "%s.GetZ() == objf(%s, vecval(%s.point.floatVariables))" % (item(1), PB, item(1))],
                    raises={"$any": ["%s.numberOfGlobalTrials == old(%s.numberOfGlobalTrials)" % (SOL, SOL),
                                     "%s.gevals == old(%s.gevals) and %s.gcalls == old(%s.gcalls) + 1" % (PB, PB, PB, PB),
                                     "%s.gn == 0 and self.best is None" % SD, "self.iterationsCount == 1",
                                     "fresh(self.evolvent.yValues) or self.evolvent.yValues is old(self.evolvent.yValues)"]},
                    doc="C02: the first trial is the evolvent image of x = 0.5; the search information [0, 0.5, 1] is "
                        "established with every invariant of the method")


def method_contracts():
    return [calculate_delta(), calculate_m(), calculate_global_r(), next_point(), check_stop(), finalize_iteration(),
            task_calculate(), calculate_functionals(), update_optimum(), recalc_all(), iteration_point(),
            renew_search_data(), first_iteration()] + process_contracts()


def loop_specs():
    d = {(F_METHOD, "Method.RecalcAllCharacteristics", 0): recalc_loop()}
    d.update(process_loop_specs())
    return d


# ----------------------------------------------------------------------------- Process (C03 C11 C13 C16 C05)
MT = "self.method"


def on_method(clauses, prefix=MT):
    return [c.replace("self.", prefix + ".") for c in clauses]


P_BASE = ["self.method is not None and self.searchData is not None and self.task is not None and self.parameters is not None and "
          "self.evolvent is not None and self._Process__listeners is not None",
          "self.method.searchData is self.searchData and self.method.task is self.task and "
          "self.method.parameters is self.parameters and self.method.evolvent is self.evolvent",
          "vlen(self._Process__listeners) >= 0", "world().gtn >= 0",
          "self._Process__listeners is not self.searchData._allTrials and self._Process__listeners is not "
          "self.searchData.solution.bestTrials and self._Process__listeners is not self.task.perm"]
M_INIT = ["%s.gn == 0 and %s._allTrials is not None and vlen(%s._allTrials) == 0" % (SD, SD, SD),
          "%s._RGlobalQueue is not None and %s is not None and depq_ok(%s) and %s.maxlen == 0 and %s.glen == 0" % (SD, Q, Q, Q, Q),
          "self.best is None and self.M[0] == 1 and self.Z[0] == PINF() and self.recalc == True",
          "self.iterationsCount == 0 and %s.numberOfGlobalTrials == 0 and %s.solutionAccuracy == PINF()" % (SOL, SOL)]
FIRST = "self._Process__first_iteration"
MPB = "self.method.task.problem"
MSD = "self.method.searchData"
MSOL = MSD + ".solution"
MQ = MSD + "._RGlobalQueue._CharacteristicsQueue__baseQueue"
LIS = "self._Process__listeners"
W = "world()"


def p_state():
    """the state of the method between iterations, as seen from Process: not yet started, or the invariant holds"""
    init = on_method(inv("base") + M_INIT)
    run = on_method(inv(*ALL) + GROUPS["count"])
    return ["implies(%s, %s)" % (FIRST, c) for c in init] + ["implies(not %s, %s)" % (FIRST, c) for c in run]


def trace_entries(kind, n0, who, a, b, upto):
    """entries n0 .. n0+upto-1 of the notification trace are `kind` notifications of listeners 0.. in order"""
    return ("forall(0, %s, lambda tj: %s.gtkind[%s + tj] == %d and %s.gtwho[%s + tj] is %s[tj] and %s.gta[%s + tj] is %s and "
            "%s.gtb[%s + tj] is %s)" % (upto, W, n0, kind, W, n0, who, W, n0, a, W, n0, b))


LN = "old(vlen(%s))" % LIS                 # the listener list is never changed by the process: bounds and elements of the trace
LOLD = "old(%s[tj])" % LIS                 # clauses are stated over its entry value (a fixed term, not a select over a store chain)
LFRAME = ["vlen(%s) == old(vlen(%s))" % (LIS, LIS), "forall(0, old(vlen(%s)), lambda tj: %s[tj] is old(%s[tj]))" % (LIS, LIS, LIS)]


def trace_list(kind, n0, who, a, b, upto, guard=None):
    whoel = LOLD if who == "$old" else "%s[tj]" % who
    cl = ["forall(0, %s, lambda tj: %s.gtkind[%s + tj] == %d)" % (upto, W, n0, kind),
          "forall(0, %s, lambda tj: %s.gtwho[%s + tj] is %s)" % (upto, W, n0, whoel),
          "forall(0, %s, lambda tj: %s.gta[%s + tj] is %s)" % (upto, W, n0, a),
          "forall(0, %s, lambda tj: %s.gtb[%s + tj] is %s)" % (upto, W, n0, b)]
    return ["implies(%s, %s)" % (guard, c) for c in cl] if guard else cl


def listener_loop(kind, a, b, n0=None):
    gb = [] if n0 is None else ["%s = world().gtn" % n0]
    n0 = n0 or "old(%s.gtn)" % W
    return LoopSpec(ghost_before=gb,
                    invariant=["0 <= gli and gli <= vlen(%s)" % LIS, "%s.gtn == %s + gli" % (W, n0)] + LFRAME +
                              trace_list(kind, n0, "$old", a, b, "gli") + [
                               "forall(0, %s, lambda tj: %s.gtkind[tj] == old(%s.gtkind[tj]) and %s.gtwho[tj] is old(%s.gtwho[tj]) "
                               "and %s.gta[tj] is old(%s.gta[tj]) and %s.gtb[tj] is old(%s.gtb[tj]))" % ((n0,) + (W,) * 8)],
                    modifies=[W + ".gtn", W + ".gtkind", W + ".gtwho", W + ".gta", W + ".gtb"],
                    variant="vlen(%s) - gli" % LIS)


def get_results():
    return Contract(F_PROC, "Process.GetResults", params={}, result="ref:Solution", modifies=[], allocates=False,
                    requires=["self.searchData is not None"], ensures=["result is self.searchData.solution"],
                    doc="the solution object of this solver's search data")


def do_global_iteration():
    cnt = ["%s.iterationsCount == old(%s.iterationsCount) + {j}" % (MT, MT),
           "%s.numberOfGlobalTrials == old(%s.numberOfGlobalTrials) + {j}" % (MSOL, MSOL),
           "%s.gevals == old(%s.gevals) + {j} and %s.gcalls == old(%s.gcalls) + {j}" % (MPB, MPB, MPB, MPB)]
    saved = ["vlen(savedNewPoints) == {j}",
             "forall(0, {j}, lambda ti: savedNewPoints[ti] is %s._allTrials[vlen(%s._allTrials) - {j} + ti])" % (MSD, MSD)]
    mods = ["%s.iterationsCount" % MT, "%s.best" % MT, "%s.recalc" % MT, "elems(%s.M)" % MT, "elems(%s.Z)" % MT,
            "elems(%s.bestTrials)" % MSOL, "%s.numberOfGlobalTrials" % MSOL, "%s.solutionAccuracy" % MSOL,
            "%s.gcalls" % MPB, "%s.gevals" % MPB, "%s.evolvent.yValues" % MT, "elems(%s.evolvent.yValues)" % MT,
            "elems(%s._allTrials)" % MSD, "len_(%s._allTrials)" % MSD, "%s._SearchData__firstDataItem" % MSD,
            "%s.curIter" % MSD, "%s.gseq" % MSD, "%s.gn" % MSD, "%s.gpos" % MSD, FIRST,
            "allof(globalR)", "allof(delta)", "allof(_SearchDataItem__leftPoint)", "allof(_SearchDataItem__rightPoint)",
            "allof(_SearchDataItem__z)", "allof(_SearchDataItem__index)", "allof(value)", "allof(curIter)",
            W + ".gtn", W + ".gtkind", W + ".gtwho", W + ".gta", W + ".gtb"] + QMODS
    n0 = "old(%s.gtn)" % W
    nb = "(%s if (old(%s) and number >= 1) else 0)" % (LN, FIRST)
    return Contract(F_PROC, "Process.DoGlobalIteration", params={"number": "int"}, result="none", modifies=mods,
                    requires=P_BASE + p_state() + ["number >= 0"],
                    ghost_results={"gsaved": "list:SearchDataItem", "gb0": "int"}, ghost_exit=["gsaved = savedNewPoints"],
                    ghost_after={"self.method.CalculateFunctionals(newpoint)":
                                 ["assert %s" % c.replace("{b}", "newpoint").replace("self.", MT + ".") for c in BEST_FID] +
                                 ["assert implies(%s.best is not None, %s)" % (MT, c.replace("{b}", "self.best").replace("self.", MT + "."))
                                  for c in BEST_FID],
                                 "self.method.UpdateOptimum(newpoint)":
                                 ["assert %s" % c.replace("{b}", "self.best").replace("self.", MT + ".") for c in BEST_FID]},
                    ensures=P_BASE + p_state() + [c.format(j="number") for c in cnt] +
                            ["implies(number >= 1, %s == False)" % FIRST, "implies(number == 0, %s == old(%s))" % (FIRST, FIRST),
                             "fresh(%s.evolvent.yValues) or %s.evolvent.yValues is old(%s.evolvent.yValues)" % (MT, MT, MT),
                             # C13: exactly the new trials of this call, in order, are handed to every listener once
                             "fresh(gsaved) and vlen(gsaved) == number",
                             "forall(0, number, lambda ti: gsaved[ti] is %s._allTrials[vlen(%s._allTrials) - number + ti])" % (MSD, MSD),
                             "%s.gtn == %s + %s + %s" % (W, n0, nb, LN),
                             "gb0 == %s" % n0,
                             ] + LFRAME + trace_list(1, "gb0", "$old", MT, "None", LN, "old(%s) and number >= 1" % FIRST) +
                            trace_list(2, "(%s + %s)" % (n0, nb), "$old", "gsaved", MSOL, LN),
                    raises={"$any": P_BASE + [
                        # C16: an objective failure leaves the completed trials intact and unrecorded points out
                        "%s.numberOfGlobalTrials - old(%s.numberOfGlobalTrials) == %s.gevals - old(%s.gevals)" % (MSOL, MSOL, MPB, MPB),
                        "%s.gcalls == %s.gevals - old(%s.gevals) + old(%s.gcalls) + 1" % (MPB, MPB, MPB, MPB),
                        "%s.iterationsCount <= old(%s.iterationsCount) + %s.gevals - old(%s.gevals) + 1" % (MT, MT, MPB, MPB),
                        "0 <= %s.gevals - old(%s.gevals) and %s.gevals - old(%s.gevals) < number" % (MPB, MPB, MPB, MPB),
                        "%s.gtn >= old(%s.gtn)" % (W, W),
                        "fresh(%s.evolvent.yValues) or %s.evolvent.yValues is old(%s.evolvent.yValues)" % (MT, MT, MT),
                        "%s.gn == 0 or %s.gn >= 3" % (MSD, MSD),
                        "implies(%s.gn >= 3, %s.gn - 2 == %s.numberOfGlobalTrials)" % (MSD, MSD, MSOL)] +
                        ["implies(%s.gn >= 3, %s)" % (MSD, c) for c in on_method(inv("base", "wf", "own", "ord", "delta", "val", "best"))]},
                    doc="C03/C11/C13/C16: `number` iterations without any stop check; every listener is told once before the "
                        "first trial and once with exactly the new trials of this call; an objective failure propagates with "
                        "the search information intact")


def dgi_loop():
    j = "_"
    inv_ = P_BASE + p_state() + ["0 <= _ and _ <= number", "fresh(%s.evolvent.yValues) or %s.evolvent.yValues is old(%s.evolvent.yValues)" % (MT, MT, MT),
        "%s.iterationsCount == old(%s.iterationsCount) + _" % (MT, MT),
        "%s.numberOfGlobalTrials == old(%s.numberOfGlobalTrials) + _" % (MSOL, MSOL),
        "%s.gevals == old(%s.gevals) + _ and %s.gcalls == old(%s.gcalls) + _" % (MPB, MPB, MPB, MPB),
        "implies(_ >= 1, %s == False)" % FIRST, "implies(_ == 0, %s == old(%s))" % (FIRST, FIRST),
        "fresh(savedNewPoints) and vlen(savedNewPoints) == _ and savedNewPoints is not %s" % LIS,
        "implies(not %s, %s.best.functionValues is not savedNewPoints)" % (FIRST, MT),
        "forall(0, _, lambda ti: savedNewPoints[ti] is %s._allTrials[vlen(%s._allTrials) - _ + ti])" % (MSD, MSD),
        "%s.gtn == old(%s.gtn) + (%s if (old(%s) and _ >= 1) else 0)" % (W, W, LN, FIRST),
        "gb0 == old(%s.gtn)" % W,
        ] + LFRAME + trace_list(1, "gb0", "$old", MT, "None", LN, "old(%s) and _ >= 1" % FIRST)
    c = do_global_iteration()
    mods = [m for m in c.modifies] + ["elems(savedNewPoints)", "len_(savedNewPoints)"]
    return LoopSpec(invariant=inv_, modifies=mods, variant="number - _", ghost_before=["gb0 = world().gtn"])


def solve():
    stopc = "(%s.solutionAccuracy < self.parameters.eps or %s.iterationsCount >= self.parameters.itersLimit)" % (MSOL, MT)
    n0 = "old(%s.gtn)" % W
    return Contract(F_PROC, "Process.Solve", params={}, result="ref:Solution", modifies=do_global_iteration().modifies +
                    ["%s.stop" % MT, "%s.solvingTime" % MSOL],
                    requires=P_BASE + p_state() + ["self.parameters.itersLimit >= 1 and self.parameters.eps > 0",
                                                   "self.parameters.refineSolution == False",
                                                   "%s.iterationsCount <= self.parameters.itersLimit" % MT],
                    ensures=P_BASE + ["result is %s" % MSOL,
                             # C03: the reported trial count is the number of completed objective evaluations, within budget
                             "%s.numberOfGlobalTrials - old(%s.numberOfGlobalTrials) == %s.gevals - old(%s.gevals)" % (MSOL, MSOL, MPB, MPB),
                             "%s.iterationsCount <= self.parameters.itersLimit" % MT,
                             "implies(%s.gcalls - old(%s.gcalls) == %s.gevals - old(%s.gevals), %s)" % (MPB, MPB, MPB, MPB, stopc),
                             # C11: Solve on a solver whose stop criterion already holds performs no trial
                             "implies(not old(%s) and old(%s), %s.gcalls == old(%s.gcalls))" % (FIRST, stopc, MPB, MPB),
                             # C16: an objective failure ends the search after at most one failed call; completed trials stay
                             "%s.gcalls - old(%s.gcalls) <= %s.gevals - old(%s.gevals) + 1" % (MPB, MPB, MPB, MPB),
                             "implies(%s.gn >= 3, %s.gn - 2 == %s.numberOfGlobalTrials)" % (MSD, MSD, MSOL)] +
                             ["implies(%s.gn >= 3, %s)" % (MSD, c) for c in on_method(inv("base", "wf", "own", "ord", "delta", "val", "best"))] +
                             # a Solve without an objective failure leaves the solver in the between-iterations state again (queue
                             # included): a resumed Solve / further batches start from what their contracts require
                             ["implies(%s.gcalls - old(%s.gcalls) == %s.gevals - old(%s.gevals), %s)" % (MPB, MPB, MPB, MPB, c)
                              for c in p_state()] + [
                             # C13: every listener is told once, at the end, with the returned solution
                             "%s.gtn >= %s + vlen(%s)" % (W, n0, LIS),
                             trace_entries(3, "%s.gtn - vlen(%s)" % (W, LIS), LIS, "self.searchData", MSOL, "vlen(%s)" % LIS)],
                    doc="C03/C13/C16: iterations are carried out one at a time while the stop criterion does not hold; the loop "
                        "terminates (variant: remaining budget); an exception of the objective is contained")


def solve_loop():
    stopc = "(%s.solutionAccuracy < self.parameters.eps or %s.iterationsCount >= self.parameters.itersLimit)" % (MSOL, MT)
    return LoopSpec(invariant=P_BASE + p_state() + [
        # C11: if the criterion held on entry nothing has happened (so the loop body is unreachable)
        "implies(old(%s) and not old(%s), %s.solutionAccuracy == old(%s.solutionAccuracy) and %s.iterationsCount == "
        "old(%s.iterationsCount) and %s.gcalls == old(%s.gcalls))" % (stopc, FIRST, MSOL, MSOL, MT, MT, MPB, MPB),"fresh(%s.evolvent.yValues) or %s.evolvent.yValues is old(%s.evolvent.yValues)" % (MT, MT, MT),
        "%s.iterationsCount <= self.parameters.itersLimit" % MT,
        "%s.numberOfGlobalTrials - old(%s.numberOfGlobalTrials) == %s.gevals - old(%s.gevals)" % (MSOL, MSOL, MPB, MPB),
        "%s.gcalls - old(%s.gcalls) == %s.gevals - old(%s.gevals)" % (MPB, MPB, MPB, MPB),
        "%s.gtn >= old(%s.gtn)" % (W, W)],
        modifies=do_global_iteration().modifies + ["%s.stop" % MT],
        variant="self.parameters.itersLimit - %s.iterationsCount" % MT,
        # C11: Solve is nothing but "iterate while the criterion does not hold" - what precedes the loop leaves the whole
        # search state as it found it (so Solve after k batched iterations continues exactly like more batches would)
        ghost_before=["assert %s.recalc == old(%s.recalc) and %s.best is old(%s.best) and %s.iterationsCount == old(%s.iterationsCount) "
                      "and %s == old(%s)" % (MT, MT, MT, MT, MT, MT, FIRST, FIRST),
                      "assert %s.M[0] == old(%s.M[0]) and %s.Z[0] == old(%s.Z[0]) and %s.solutionAccuracy == old(%s.solutionAccuracy)"
                      % (MT, MT, MT, MT, MSOL, MSOL),
                      "assert %s.gn == old(%s.gn) and %s.gseq == old(%s.gseq) and %s.glen == old(%s.glen) and "
                      "%s.gitems == old(%s.gitems) and %s.gkeys == old(%s.gkeys)"
                      % (MSD, MSD, MSD, MSD, MQ, MQ, MQ, MQ, MQ, MQ)])


def stop_listener_loop():
    n0 = "old(%s.gtn)" % W
    return LoopSpec(invariant=["0 <= gli and gli <= vlen(%s)" % LIS, "%s.gtn == %s + gli" % (W, n0),
                               trace_entries(3, n0, LIS, "self.searchData", MSOL, "gli")],
                    modifies=[W + ".gtn", W + ".gtkind", W + ".gtwho", W + ".gta", W + ".gtb", "%s.stop" % MT],
                    variant="vlen(%s) - gli" % LIS)


def process_contracts():
    return [get_results(), do_global_iteration(), solve(), problem_calculate_wrapper(), do_local_refinement()]


# ----------------------------------------------------------------------------- establishment (base case of the history induction)
def sd_init_full():
    """SearchData.__init__ with the ghost container state (C19's contract) AND the Solution facts (C12's contract)"""
    GQ = csd.GQ
    return Contract(F_SD, "SearchData.__init__", params={"problem": "ref:Problem", "maxlen": "int"}, result="none",
                    modifies=["obj(self)"], requires=["maxlen >= 0"],
                    ghost_exit=["self.gn = 0", "self.gseq = empty_seq('SearchDataItem')", "self.gpos = empty_seq('int')"],
                    ensures=["self.gn == 0 and fresh(self._allTrials) and vlen(self._allTrials) == 0 and "
                             "self._SearchData__firstDataItem is None",
                             "fresh(self._RGlobalQueue) and fresh(%s) and %s.glen == 0 and %s.maxlen == maxlen and depq_ok(%s)"
                             % (GQ, GQ, GQ, GQ),
                             "fresh(self.solution) and self.solution.problem is problem",
                             "fresh(self.solution.bestTrials) and vlen(self.solution.bestTrials) == 1",
                             "self.solution.numberOfGlobalTrials == 0 and self.solution.numberOfLocalTrials == 0"],
                    doc="a new container: no items, an empty queue with the requested bound, a fresh Solution with zero counters")


def solver_establish():
    """Solver.__init__ establishes what Process.Solve / DoGlobalIteration require of a solver that has not started: the
    base case of 'after any number of iterations'.  Hypotheses on the user's inputs (configuration scope of the method
    layer): one objective, no constraints, N >= 1, r > 1, finite r and eps."""
    pr = "self.process"
    post = [c.replace("self.", pr + ".") for c in P_BASE + p_state()]
    return Contract(F_SOLVER, "Solver.__init__", params={"problem": "ref:Problem", "parameters": "ref:SolverParameters"},
                    result="none", modifies=["obj(self)"],
                    setup=["problem.numberOfObjectives = 1", "problem.numberOfConstraints = 0"],
                    requires=["problem.numberOfObjectives == 1 and problem.numberOfConstraints == 0",
                              "problem.numberOfFloatVariables >= 1",
                              "problem.lowerBoundOfFloatVariables is not None and problem.upperBoundOfFloatVariables is not None",
                              "parameters.r > 1 and finite(parameters.r) and finite(parameters.eps)", "world().gtn >= 0"],
                    ensures=["fresh(self.process) and %s._Process__first_iteration == True" % pr,
                             "%s._Process__listeners is self._Solver__listeners and vlen(self._Solver__listeners) == 0" % pr] + post,
                    doc="base case: a freshly constructed solver satisfies the pre-condition of its first Solve / "
                        "DoGlobalIteration (empty container, unbounded empty queue, M = 1, z* = +inf, recalc set, zero counters)")


# ----------------------------------------------------------------------------- the public API layer (iOpt/solver.py)
def _lift(clauses):
    """a clause about a Process, stated about the Solver that owns it"""
    return [c.replace("self.", "self.process.") for c in clauses]


def solver_api_contracts():
    """Solver.Solve / DoGlobalIteration / DoLocalRefinement / GetResults are the entry points users call: each must be
    exactly the corresponding Process operation (same pre-state, same post-state, same notifications)."""
    out = []
    for src, name, params, result in ((solve(), "Solve", {}, "ref:Solution"),
                                      (do_global_iteration(), "DoGlobalIteration", {"number": "int"}, "none"),
                                      (do_local_refinement(), "DoLocalRefinement", {"number": "int"}, "none"),
                                      (get_results(), "GetResults", {}, "ref:Solution")):
        c = Contract(F_SOLVER, "Solver." + name, params=params, result=result,
                     modifies=_lift(src.modifies), allocates=getattr(src, "allocates", True),
                     requires=["self.process is not None"] + _lift(src.requires), ensures=_lift(src.ensures),
                     raises={k: _lift(v) for k, v in (src.raises or {}).items()},
                     ghost_results=dict(getattr(src, "ghost_results", {}) or {}),
                     doc="API layer: Solver.%s is Process.%s of the solver's own process" % (name, name))
        out.append(c)
    return out


def establishment_tasks():
    """(contract, callee contracts) pairs"""
    from contracts import core as cc
    depq = csd.depq_contracts()
    cq = csd.cq_contracts()
    sd = sd_init_full()
    t1 = (sd, [cc.solution_init()] + cq + depq)
    t2 = (solver_establish(), [sd, cc.evolvent_init_sym(), cc.optimization_task_init(), cc.method_init(), cc.process_init()])
    api = [(c, process_contracts()) for c in solver_api_contracts()]
    return [t1, t2] + api


def process_loop_specs():
    return {(F_PROC, "Process.DoGlobalIteration", 0): dgi_loop(),
            (F_PROC, "Process.DoGlobalIteration", 1): listener_loop(1, MT, "None", n0="gb0"),
            (F_PROC, "Process.DoGlobalIteration", 2): listener_loop(2, "savedNewPoints", MSOL),
            (F_PROC, "Process.Solve", 0): solve_loop(),
            (F_PROC, "Process.Solve", 1): stop_listener_loop()}


# ----------------------------------------------------------------------------- console final report (C13)
F_CONSOLE = "iOpt/output_system/console/console_output.py"
SCHEMA.update({"gp_solved": "bool", "gp_glob": "int", "gp_loc": "int", "gp_time": "real", "gp_acc": "real",
               "gp_point": "ref:object", "gp_value": "real", "_FunctionConsoleFullOutput__outputer": "ref:ConsoleOutputer",
               "iterNum": "int", "_ConsoleFullOutputListener__fcfo": "ref:FunctionConsoleFullOutput", "mode": "any", "iters": "int"})


def console_contracts():
    ws = ["world().gp_solved", "world().gp_glob", "world().gp_loc", "world().gp_time", "world().gp_acc", "world().gp_point",
          "world().gp_value"]
    pr = Contract(F_CONSOLE, "ConsoleOutputer.printResult",
                  params={"solved": "bool", "numberOfGlobalTrials": "int", "numberOfLocalTrials": "int", "solvingTime": "real",
                          "solutionAccuracy": "real", "bestTrialPoint": "ref:object?", "bestTrialValue": "real"},
                  result="none", modifies=ws, allocates=True,
                  ensures=["world().gp_solved == solved and world().gp_glob == numberOfGlobalTrials and "
                           "world().gp_loc == numberOfLocalTrials and world().gp_time == solvingTime and "
                           "world().gp_acc == solutionAccuracy and world().gp_point is bestTrialPoint and "
                           "world().gp_value == bestTrialValue"],
                  doc="ASSUMED (body = str.format / print, checked syntactically in props/c13.py): prints each parameter under "
                      "its label; the ghost fields gp_* record which value was printed under which label")
    bt = "solution.bestTrials[0]"
    pf = Contract(F_CONSOLE, "FunctionConsoleFullOutput.printFinalResult", params={"solution": "ref:Solution", "status": "bool"},
                  result="none", modifies=ws, allocates=True,
                  requires=["self._FunctionConsoleFullOutput__outputer is not None",
                            "solution.bestTrials is not None and vlen(solution.bestTrials) == 1 and %s is not None and "
                            "%s.point is not None and %s.functionValues is not None and vlen(%s.functionValues) >= 1 and "
                            "%s.functionValues[0] is not None" % (bt, bt, bt, bt, bt)],
                  ensures=["world().gp_glob == solution.numberOfGlobalTrials and world().gp_loc == solution.numberOfLocalTrials",
                           "world().gp_point is %s.point.floatVariables and world().gp_value == %s.functionValues[0].value" % (bt, bt),
                           "world().gp_acc == solution.solutionAccuracy and world().gp_time == solution.solvingTime and "
                           "world().gp_solved == status"],
                  doc="C13: the final console report shows the solution's actual trial counts, point, value and accuracy")
    return [pr, pf]


# ----------------------------------------------------------------------------- local refinement (C05)
SCHEMA.update({"lb": "vec:real", "ub": "vec:real", "gx0": "int"})


def override_bounds(engine, state, args, kw, node):
    """scipy.optimize.Bounds(lb, ub): a new object remembering the two vectors (ASSUMED, dependency)"""
    obj = engine.alloc(state, "Bounds")
    engine.store(state, obj, "lb", args[0] if args else kw.get("lb"), node, ghost=True)
    engine.store(state, obj, "ub", args[1] if len(args) > 1 else kw.get("ub"), node, ghost=True)
    return obj


def override_minimize(engine, state, args, kw, node):
    """ASSUMED contract of scipy.optimize.minimize(fun, x0, method='Nelder-Mead', bounds=B) (dependency, T6):
    PRECONDITION (obligations at the call site): bounds are passed and are the box of the problem, x0 lies in the box;
    then fun is evaluated only at points of the box, result.x lies in the box, fun(result.x) <= fun(x0),
    result.nfev = number of evaluations of fun.  Without `bounds` the contract promises nothing about the box."""
    fun = args[0] if args else kw.get("fun")
    x0 = kw.get("x0", args[1] if len(args) > 1 else None)
    b = kw.get("bounds")
    engine.oblige(state, b is not None, "requires[scipy.optimize.minimize#bounds]", node,
                  "precondition of the assumed SciPy contract: the search box is passed (bounds=...)")
    if not isinstance(fun, BoundMethod) or fun.name != "problemCalculate":
        engine.unsupported("objective handed to scipy.optimize.minimize is not Process.problemCalculate", node)
    proc = fun.recv
    task = engine.load(state, proc, "task")
    pb = engine.load(state, task, "problem")
    ev = engine.load(state, proc, "evolvent")
    if b is not None and isinstance(b, Ref):
        lb, ub = engine.load(state, b, "lb"), engine.load(state, b, "ub")
        plo = engine.load(state, pb, "lowerBoundOfFloatVariables")
        pup = engine.load(state, pb, "upperBoundOfFloatVariables")
        engine.oblige(state, z3.And(lb.e == plo.e, ub.e == pup.e), "requires[scipy.optimize.minimize#box]", node,
                      "the bounds handed to SciPy are the problem's lower / upper bound vectors")
    if not isinstance(x0, Ref):
        engine.unsupported("x0 of scipy.optimize.minimize", node)
    v0 = spec_vecval(engine, state, x0)
    engine.oblige(state, INBOX(ev.e, v0), "requires[scipy.optimize.minimize#x0]", node, "the start point lies in the box")
    res = engine.alloc(state, "OptimizeResult")
    x = engine.vec_new(state, "vec:real", length=engine.vec_len(state, x0))
    engine.store(state, res, "x", x, node, ghost=True)
    nfev = engine.fresh("nfev", IntS)
    fx = OBJF(pb.e, spec_vecval(engine, state, x))
    engine.store(state, res, "nfev", nfev, node, ghost=True)
    engine.store(state, res, "fun", fx, node, ghost=True)
    engine.store(state, res, "gx0", v0, node, ghost=True)
    state.assume(nfev >= 0)
    if b is not None:
        state.assume(INBOX(ev.e, spec_vecval(engine, state, x)))
        state.assume(fx <= OBJF(pb.e, v0))
        state.assume(z3.And(fx > NINF, fx < PINF))
    # the objective was called nfev times (inside the box when bounds were passed)
    for cnt in ("gcalls", "gevals"):
        engine.store(state, pb, cnt, engine.load(state, pb, cnt) + nfev, node, ghost=True)
    return res


OVERRIDES.update({"scipy.optimize.Bounds": override_bounds, "scipy.optimize.minimize": override_minimize})


def problem_calculate_wrapper():
    return Contract(F_PROC, "Process.problemCalculate", params={"y": "vec:real"}, result="real",
                    modifies=["self.task.problem.gcalls", "self.task.problem.gevals"],
                    requires=["self.task is not None and self.task.problem is not None and self.evolvent is not None",
                              "inbox(self.evolvent, vecval(y))"],
                    ensures=["result == objf(self.task.problem, vecval(y)) and finite(result)",
                             "self.task.problem.gevals == old(self.task.problem.gevals) + 1"],
                    raises={"$any": ["self.task.problem.gevals == old(self.task.problem.gevals)"]},
                    doc="C05: one objective evaluation at a point of the box, on a fresh Point and a fresh value holder")


def do_local_refinement():
    bt = "%s.bestTrials[0]" % MSOL
    return Contract(F_PROC, "Process.DoLocalRefinement", params={"number": "int"}, result="none",
                    modifies=["self.localMethodIterationCount", "%s.point.floatVariables" % bt, "%s.functionValues[0].value" % bt,
                              "%s.numberOfLocalTrials" % MSOL, "%s.gcalls" % MPB, "%s.gevals" % MPB],
                    requires=P_BASE + on_method(GROUPS["base"][:3] + GROUPS["best"]) + [
                        "self.task.problem.lowerBoundOfFloatVariables is not None and "
                        "self.task.problem.upperBoundOfFloatVariables is not None"],
                    ensures=["inbox(self.evolvent, vecval(%s.point.floatVariables))" % bt,
                             "%s.functionValues[0].value == objf(%s, vecval(%s.point.floatVariables))" % (bt, MPB, bt),
                             "%s.functionValues[0].value <= old(%s.functionValues[0].value)" % (bt, bt)],
                    raises={"$any": []},
                    doc="C05: the refinement starts from the optimum, hands the box to the (assumed) SciPy contract, so every "
                        "evaluation and the returned point stay in the box; the reported value is the objective re-evaluated at "
                        "the returned point and is not worse than the best global trial")
